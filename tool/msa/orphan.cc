#include "common.h"
namespace msa {
llvm::json::Value runOrphan(ASTContext &Ctx) { return nullptr; }
}
