// orphan engine (rule guard.orphan, DESIGN §2.4): nullness of forest pointers whose origin is
// forest::getForestWithID(...) / dd_edge::getForest() — the two functions that return nullptr once
// an edge's forest has been destroyed.  Path-sensitive forward dataflow over the CFG; a pointer in
// state MaybeNull may be dereferenced only under a dominating non-null fact.
//
// Accepted guards (each enumerated from dd_edge.cc / dd_edge.h and itself checked):
//   * a null test of the pointer (if (p), if (!p), p == nullptr, p != 0);
//   * dd_edge::iterator: a test of `atEnd`, or of a pointer field allocated together with F
//     (M, U_from, …): init_with_forest sets atEnd and leaves them null exactly when F is null
//     (checked by rule guard.orphan.iterator-init in lib/rules_orphan.py);
//   * dd_edge: a test `node != 0`: a non-zero node is stored only under a non-null forest test
//     (obligation kind "node-store" below) and unregisterDDEdges zeroes node when the forest dies.
#include "common.h"

namespace msa {
using llvm::json::Array;
using llvm::json::Object;
using llvm::json::Value;

namespace {

bool isForestPtr(QualType QT) {
  if (QT.isNull() || !QT->isPointerType()) return false;
  const CXXRecordDecl *RD = QT->getPointeeType()->getAsCXXRecordDecl();
  return RD && RD->getIdentifier() && nameIs(RD, "forest");
}

struct St {
  std::map<const ValueDecl *, char> nul; // 'N' maybe null (from a source), 'Y' non-null, 'U' unknown
  signed char atEnd = -1;                // iterator: -1 unknown, 0 false, 1 true
  bool nodeNZ = false;                   // dd_edge: this->node known non-zero
  std::set<const ValueDecl *> attached;  // edges e for which e.isAttachedTo(p) holds with p not known null
  std::string key() const {
    std::ostringstream os;
    for (auto &p : nul) os << (const void *)p.first << p.second << ";";
    for (auto *a : attached) os << "a" << (const void *)a;
    os << (int)atEnd << nodeNZ;
    return os.str();
  }
};

struct Diag { std::string rule, sink, msg; unsigned line; };

struct An {
  ASTContext &Ctx;
  const FunctionDecl *FD;
  const SourceManager &SM;
  std::vector<Diag> diags;
  unsigned derefs = 0, nodeStores = 0, states = 0;
  bool isIter = false, isEdge = false, giveUp = false;
  const FieldDecl *fieldF = nullptr;
  std::set<const FieldDecl *> coFields;
  std::set<std::pair<const Stmt *, std::string>> reported;
  std::set<const Stmt *> counted;

  An(ASTContext &C, const FunctionDecl *F) : Ctx(C), FD(F), SM(C.getSourceManager()) {}

  void report(const char *rule, const Stmt *At, const std::string &sink, const std::string &msg) {
    if (!reported.insert({At, sink}).second) return;
    diags.push_back({rule, sink, msg, lineOf(SM, At->getBeginLoc())});
  }

  bool isOwnSource(const Expr *E0) {
    const Expr *E = strip(E0);
    auto *CE = dyn_cast_or_null<CallExpr>(E);
    if (!CE) return false;
    const FunctionDecl *C = calleeOf(CE);
    if (!C) return false;
    std::string n = qualName(C);
    if (n == "MEDDLY::forest::getForestWithID" && CE->getNumArgs() == 1) {
      if (auto *ME = dyn_cast<MemberExpr>(strip(CE->getArg(0))))
        return isa<CXXThisExpr>(strip(ME->getBase())) && ME->getMemberDecl()->getName() == "parentFID";
    }
    if (n == "MEDDLY::dd_edge::getForest")
      if (auto *MC = dyn_cast<CXXMemberCallExpr>(CE)) return isa<CXXThisExpr>(strip(MC->getImplicitObjectArgument()));
    return false;
  }
  bool isSource(const Expr *E0) {
    const Expr *E = strip(E0);
    if (auto *CE = dyn_cast_or_null<CallExpr>(E))
      if (const FunctionDecl *C = calleeOf(CE)) {
        std::string n = qualName(C);
        return n == "MEDDLY::forest::getForestWithID" || n == "MEDDLY::dd_edge::getForest";
      }
    return false;
  }
  const ValueDecl *refOf(const Expr *E0) {
    const Expr *E = strip(E0);
    if (auto *DR = dyn_cast_or_null<DeclRefExpr>(E)) return DR->getDecl();
    if (auto *ME = dyn_cast_or_null<MemberExpr>(E))
      if (isa<CXXThisExpr>(strip(ME->getBase()))) return ME->getMemberDecl();
    return nullptr;
  }
  // x.getForest() with x a named object: returns x's declaration
  const ValueDecl *getterObject(const Expr *E0) {
    if (auto *MC = dyn_cast_or_null<CXXMemberCallExpr>(strip(E0)))
      if (const FunctionDecl *F = calleeOf(MC)) if (qualName(F) == "MEDDLY::dd_edge::getForest") return refOf(MC->getImplicitObjectArgument());
    return nullptr;
  }
  // any call that may modify an edge object forgets what was known about its forest
  void invalidate(St &S, const CallExpr *CE, const FunctionDecl *C) {
    if (S.attached.empty()) return;
    if (auto *MC = dyn_cast<CXXMemberCallExpr>(CE)) if (auto *MD = dyn_cast<CXXMethodDecl>(C)) if (!MD->isConst())
      if (const ValueDecl *X = refOf(MC->getImplicitObjectArgument())) S.attached.erase(X);
    unsigned off = (isa<CXXOperatorCallExpr>(CE) && isa<CXXMethodDecl>(C)) ? 1 : 0;
    if (off) if (auto *MD = dyn_cast<CXXMethodDecl>(C)) if (!MD->isConst()) if (const ValueDecl *X = refOf(CE->getArg(0))) S.attached.erase(X);
    for (unsigned i = 0; i + off < CE->getNumArgs() && i < C->getNumParams(); i++) {
      QualType PT = C->getParamDecl(i)->getType();
      if (PT->isLValueReferenceType() && !PT.getNonReferenceType().isConstQualified())
        if (const ValueDecl *X = refOf(CE->getArg(i + off))) S.attached.erase(X);
    }
  }
  bool coFieldRef(const ValueDecl *V) {
    if (auto *F = dyn_cast_or_null<FieldDecl>(V)) return coFields.count(F) > 0;
    return false;
  }
  char stateOfExpr(St &S, const Expr *E) {
    if (isa<CXXNullPtrLiteralExpr>(strip(E)) || isa<GNUNullExpr>(strip(E))) return 'N';
    if (isSource(E)) return (isOwnSource(E) && S.nodeNZ) ? 'Y' : 'N';
    if (const ValueDecl *R = refOf(E)) { auto it = S.nul.find(R); return it == S.nul.end() ? 'U' : it->second; }
    return 'U';
  }

  // p-> … with p a forest pointer
  void derefForest(St &S, const Expr *Base, const Stmt *At) {
    if (counted.insert(At).second) derefs++;
    if (isSource(Base)) {
      if (isOwnSource(Base) && S.nodeNZ) return;
      if (auto *MC = dyn_cast_or_null<CXXMemberCallExpr>(strip(Base)))
        if (const ValueDecl *X = refOf(MC->getImplicitObjectArgument())) if (S.attached.count(X)) return;
      report("guard.orphan", At, "direct", "result of getForest()/getForestWithID() is dereferenced without a null test (the forest may have been destroyed)");
      return;
    }
    const ValueDecl *V = refOf(Base);
    if (!V) return;
    auto it = S.nul.find(V);
    if (it != S.nul.end() && it->second == 'N') {
      if (isIter && V == fieldF && S.atEnd == 0) return;
      report("guard.orphan", At, V->getNameAsString(), "'" + V->getNameAsString() + "' may be null (forest destroyed or never attached) and is dereferenced");
    }
  }
  // use of an iterator field that is allocated only when F is non-null
  void derefCoField(St &S, const ValueDecl *V, const Stmt *At) {
    if (counted.insert(At).second) derefs++;
    if (!fieldF) return;
    auto it = S.nul.find(fieldF);
    if (it == S.nul.end() || it->second != 'N') return;
    if (S.atEnd == 0) return;
    auto iv = S.nul.find(V);
    if (iv != S.nul.end() && iv->second == 'Y') return;
    report("guard.orphan", At, V->getNameAsString(), "iterator field '" + V->getNameAsString() + "' is null whenever F is null (end iterator) and is dereferenced without an atEnd/F/" + V->getNameAsString() + " test");
  }

  void visitDerefs(St &S, const Stmt *X) {
    // member access through a pointer
    if (auto *ME = dyn_cast<MemberExpr>(X)) {
      if (ME->isArrow()) {
        const Expr *B = ME->getBase();
        if (isForestPtr(B->getType())) derefForest(S, B, X);
        else if (isIter) if (const ValueDecl *V = refOf(B)) if (coFieldRef(V)) derefCoField(S, V, X);
      }
      return;
    }
    if (auto *AS = dyn_cast<ArraySubscriptExpr>(X)) {
      if (isIter) if (const ValueDecl *V = refOf(AS->getBase())) if (coFieldRef(V)) derefCoField(S, V, X);
      return;
    }
    if (auto *UO = dyn_cast<UnaryOperator>(X)) {
      if (UO->getOpcode() == UO_Deref) {
        const Expr *B = UO->getSubExpr();
        if (isForestPtr(B->getType())) derefForest(S, B, X);
        else if (isIter) if (const ValueDecl *V = refOf(B)) if (coFieldRef(V)) derefCoField(S, V, X);
      }
      return;
    }
  }

  void stmt(St &S, const Stmt *X) {
    visitDerefs(S, X);
    if (auto *CE = dyn_cast<CallExpr>(X)) {
      // bound member callee p->f(): the MemberExpr is not always its own CFG element
      if (auto *MC = dyn_cast<CXXMemberCallExpr>(CE))
        if (auto *ME = dyn_cast<MemberExpr>(MC->getCallee()->IgnoreParens())) visitDerefs(S, ME);
      const FunctionDecl *C = calleeOf(CE);
      if (!C) return;
      invalidate(S, CE, C);
      std::string cn = qualName(C);
      if (isIter && fieldF && nameIs(C, "init_with_forest") && CE->getNumArgs() == 1) {
        S.nul[fieldF] = stateOfExpr(S, CE->getArg(0));
        S.atEnd = -1;
        return;
      }
      // calling a private helper of the iterator class hands it the class invariant "F non-null"
      if (isIter && fieldF) if (auto *MD = dyn_cast<CXXMethodDecl>(C)) if (nameIs(MD->getParent(), "iterator") && MD->getAccess() != AS_public && !isa<CXXConstructorDecl>(MD) && !nameIs(C, "init_with_forest")) {
        if (auto *MC = dyn_cast<CXXMemberCallExpr>(CE)) if (isa<CXXThisExpr>(strip(MC->getImplicitObjectArgument()))) {
          if (counted.insert(X).second) derefs++;
          auto it = S.nul.find(fieldF);
          if (it != S.nul.end() && it->second == 'N' && S.atEnd != 0)
            report("guard.orphan", X, C->getNameAsString(), "private iterator helper " + C->getNameAsString() + "() assumes a live forest but is called without an atEnd/F test");
        }
      }
      // callees that dereference their forest argument unconditionally
      static const char *derefArg[] = {"MEDDLY::unpacked_node::New", "MEDDLY::unpacked_node::newFromNode", "MEDDLY::unpacked_node::newRedundant", "MEDDLY::unpacked_node::newIdentity",
                                       "MEDDLY::unpacked_node::newWritable", "MEDDLY::minterm::minterm", "MEDDLY::node_marker::node_marker", nullptr};
      for (int i = 0; derefArg[i]; i++) if (cn == derefArg[i]) {
        for (unsigned a = 0; a < CE->getNumArgs() && a < C->getNumParams(); a++) if (isForestPtr(C->getParamDecl(a)->getType())) {
          if (counted.insert(CE->getArg(a)).second) derefs++;
          if (stateOfExpr(S, CE->getArg(a)) == 'N') report("guard.orphan", X, "arg:" + C->getNameAsString(), "possibly-null forest pointer passed to " + cn + ", which dereferences it");
        }
      }
      return;
    }
    if (auto *CC = dyn_cast<CXXConstructExpr>(X)) {
      std::string cn = qualName(CC->getConstructor());
      if (cn == "MEDDLY::minterm::minterm" || cn == "MEDDLY::node_marker::node_marker") {
        for (unsigned a = 0; a < CC->getNumArgs() && a < CC->getConstructor()->getNumParams(); a++) if (isForestPtr(CC->getConstructor()->getParamDecl(a)->getType())) {
          if (counted.insert(CC->getArg(a)).second) derefs++;
          if (stateOfExpr(S, CC->getArg(a)) == 'N') report("guard.orphan", X, "arg:" + CC->getConstructor()->getNameAsString(), "possibly-null forest pointer passed to " + cn + ", which dereferences it");
        }
      }
      return;
    }
    if (auto *DS = dyn_cast<DeclStmt>(X)) {
      for (auto *D : DS->decls()) if (auto *VD = dyn_cast<VarDecl>(D)) if (isForestPtr(VD->getType())) S.nul[VD] = VD->hasInit() ? stateOfExpr(S, VD->getInit()) : 'U';
      return;
    }
    if (auto *BO = dyn_cast<BinaryOperator>(X)) {
      if (BO->getOpcode() != BO_Assign) return;
      const ValueDecl *L = refOf(BO->getLHS());
      if (!L) return;
      if (isForestPtr(BO->getLHS()->getType())) { S.nul[L] = stateOfExpr(S, BO->getRHS()); return; }
      if (isIter && nameIs(L, "atEnd")) {
        auto *BL = dyn_cast<CXXBoolLiteralExpr>(strip(BO->getRHS()));
        bool setsTrue = BL && BL->getValue();
        if (!setsTrue && fieldF) {
          // class invariant behind the atEnd guard: atEnd may only become false on an iterator that has a forest
          if (counted.insert(X).second) derefs++;
          auto it = S.nul.find(fieldF);
          if (it != S.nul.end() && it->second == 'N' && S.atEnd != 0)
            report("guard.orphan", X, "atEnd", "atEnd may become false on an iterator whose forest pointer F is null (breaks `!atEnd ⇒ F alive`, which operator++/operator*/equals rely on)");
        }
        if (BL) S.atEnd = BL->getValue() ? 1 : 0; else S.atEnd = -1;
        return;
      }
      if (isIter && coFieldRef(L)) {
        const Expr *R = strip(BO->getRHS());
        S.nul[L] = isa<CXXNewExpr>(R) ? 'Y' : ((isa<CXXNullPtrLiteralExpr>(R) || isa<GNUNullExpr>(R)) ? 'N' : 'U');
        return;
      }
      if (isEdge && nameIs(L, "node") && isa<FieldDecl>(L)) {
        // class invariant behind the `node != 0` guard: a possibly non-zero handle is stored only under a live forest
        const Expr *R = strip(BO->getRHS());
        bool zero = false;
        if (auto *IL = dyn_cast<IntegerLiteral>(R)) zero = IL->getValue() == 0;
        nodeStores++;
        if (!zero) {
          bool live = false;
          for (auto &p : S.nul) if (p.second == 'Y' && isForestPtr(p.first->getType())) live = true;
          if (!live) report("guard.orphan.node-store", X, "node", "dd_edge::node receives a possibly non-zero handle on a path with no established live forest (breaks the `node != 0 ⇒ forest alive` invariant that getLevel relies on)");
        }
        S.nodeNZ = false;
        return;
      }
    }
  }

  bool refine(St &N, const Expr *C0, bool truth) {
    const Expr *C = strip(C0);
    while (auto *UO = dyn_cast_or_null<UnaryOperator>(C)) { if (UO->getOpcode() != UO_LNot) break; truth = !truth; C = strip(UO->getSubExpr()); }
    if (!C) return true;
    auto setNN = [&](const ValueDecl *V) { N.nul[V] = 'Y'; if (coFieldRef(V) && fieldF) N.nul[fieldF] = 'Y'; };
    // `if (x.getForest())` / `if (!x.getForest()) throw …`: the getter of the same edge object is non-null afterwards
    // (until x is modified: see invalidate())
    if (const ValueDecl *X = getterObject(C)) { if (truth) N.attached.insert(X); return true; }
    if (const ValueDecl *V = refOf(C)) {
      if (isIter && nameIs(V, "atEnd") && isa<CXXThisExpr>(strip(cast<MemberExpr>(C)->getBase()))) {
        if (truth) { if (N.atEnd == 0) return false; N.atEnd = 1; } else { if (N.atEnd == 1) return false; N.atEnd = 0; if (fieldF) N.nul[fieldF] = 'Y'; }
        return true;
      }
      if (isForestPtr(C->getType()) || coFieldRef(V)) {
        if (truth) setNN(V);
        else { auto it = N.nul.find(V); if (it != N.nul.end() && it->second == 'Y') return false; }
        return true;
      }
      if (isEdge && nameIs(V, "node") && isa<FieldDecl>(V)) { if (truth) nodeKnownNZ(N); return true; }
      return true;
    }
    if (auto *BO = dyn_cast<BinaryOperator>(C)) {
      auto op = BO->getOpcode();
      const Expr *L = strip(BO->getLHS()), *R = strip(BO->getRHS());
      auto isNull = [](const Expr *E) { return isa<CXXNullPtrLiteralExpr>(E) || isa<GNUNullExpr>(E) || (isa<IntegerLiteral>(E) && cast<IntegerLiteral>(E)->getValue() == 0); };
      if (op == BO_EQ || op == BO_NE) {
        bool eq = (op == BO_EQ) == truth;
        const ValueDecl *V = nullptr;
        if (isNull(L)) V = refOf(R); else if (isNull(R)) V = refOf(L);
        if (isNull(L) || isNull(R)) if (const ValueDecl *X = getterObject(isNull(L) ? R : L)) { if (!eq) N.attached.insert(X); return true; }
        if (V && (isForestPtr(V->getType()) || coFieldRef(V))) {
          if (!eq) setNN(V);
          else { auto it = N.nul.find(V); if (it != N.nul.end() && it->second == 'Y') return false; }
          return true;
        }
        if (V && isEdge && nameIs(V, "node") && isa<FieldDecl>(V)) { if (!eq) nodeKnownNZ(N); return true; }
        // p == q with q non-null
        const ValueDecl *A = refOf(L), *B = refOf(R);
        if (A && B && isForestPtr(A->getType()) && isForestPtr(B->getType()) && eq) {
          auto ia = N.nul.find(A), ib = N.nul.find(B);
          if (ia != N.nul.end() && ia->second == 'Y') N.nul[B] = 'Y';
          else if (ib != N.nul.end() && ib->second == 'Y') N.nul[A] = 'Y';
        }
        return true;
      }
      if ((op == BO_GT || op == BO_LT) && isEdge) {
        // node > 0 / 0 < node
        const ValueDecl *V = nullptr;
        if (op == BO_GT && isNull(R)) V = refOf(L);
        if (op == BO_LT && isNull(L)) V = refOf(R);
        if (V && nameIs(V, "node") && isa<FieldDecl>(V) && truth) nodeKnownNZ(N);
      }
      return true;
    }
    if (auto *MC = dyn_cast<CXXMemberCallExpr>(C)) {
      // e.isAttachedTo(p) holds ⇒ e.getForest() == p; accepted as a guard of e.getForest()-> when p is not itself
      // a possibly-null pointer (an operation's own forest member, a constructor argument, …)
      if (const FunctionDecl *F = calleeOf(MC)) if (qualName(F) == "MEDDLY::dd_edge::isAttachedTo" && truth && MC->getNumArgs() == 1)
        if (const ValueDecl *X = refOf(MC->getImplicitObjectArgument())) if (stateOfExpr(N, MC->getArg(0)) != 'N') N.attached.insert(X);
    }
    return true;
  }
  void nodeKnownNZ(St &N) {
    N.nodeNZ = true;
    // pointers already obtained from the edge's own id are non-null under the invariant
    for (auto &p : N.nul) if (p.second == 'N' && ownRefs.count(p.first)) p.second = 'Y';
  }
  std::set<const ValueDecl *> ownRefs;

  void run() {
    if (auto *MD = dyn_cast<CXXMethodDecl>(FD)) {
      const CXXRecordDecl *RD = MD->getParent();
      if (nameIs(RD, "iterator") && qualName(RD) == "MEDDLY::dd_edge::iterator") {
        isIter = true;
        for (auto *F : RD->fields()) {
          if (nameIs(F, "F")) fieldF = F;
          else if (F->getType()->isPointerType() && !nameIs(F, "mask")) coFields.insert(F);
        }
      }
      if (qualName(RD) == "MEDDLY::dd_edge") isEdge = true;
    }
    // which locals are initialised from the edge's own forest id (for the node != 0 invariant)
    struct OV : RecursiveASTVisitor<OV> {
      An *A;
      bool VisitVarDecl(VarDecl *VD) { if (VD->hasInit() && isForestPtr(VD->getType()) && A->isOwnSource(VD->getInit())) A->ownRefs.insert(VD); return true; }
    } ov;
    ov.A = this;
    ov.TraverseDecl(const_cast<FunctionDecl *>(FD));

    std::unique_ptr<CFG> cfg = buildCFG(Ctx, FD);
    if (!cfg) { giveUp = true; return; }
    St Init;
    if (isIter && fieldF) {
      bool ctorLike = isa<CXXConstructorDecl>(FD) || nameIs(FD, "init_with_forest");
      auto *MD = cast<CXXMethodDecl>(FD);
      if (ctorLike) Init.nul[fieldF] = 'U';
      else if (MD->getAccess() == AS_public || isa<CXXDestructorDecl>(FD)) Init.nul[fieldF] = 'N'; // any iterator may be an end iterator
      else Init.nul[fieldF] = 'U'; // private helper: its callers are checked instead
    }
    std::map<const CFGBlock *, std::set<std::string>> seen;
    std::deque<std::pair<const CFGBlock *, St>> work;
    work.push_back({&cfg->getEntry(), Init});
    while (!work.empty()) {
      auto BS = work.front();
      work.pop_front();
      const CFGBlock *B = BS.first;
      St S = BS.second;
      if (!seen[B].insert(S.key()).second) continue;
      if (++states > 200000) { giveUp = true; return; }
      bool thrown = false;
      for (const CFGElement &E : *B) {
        if (auto CS = E.getAs<CFGStmt>()) {
          const Stmt *X = CS->getStmt();
          if (isa<CXXThrowExpr>(X)) { thrown = true; break; }
          stmt(S, X);
        }
      }
      if (thrown) continue;
      const Expr *TC = effectiveCond(B);
      unsigned si = 0;
      for (auto SI = B->succ_begin(); SI != B->succ_end(); ++SI, ++si) {
        const CFGBlock *Su = SI->getReachableBlock();
        if (!Su) continue;
        St N = S;
        bool ok = true;
        if (TC && B->succ_size() == 2) ok = refine(N, TC, si == 0);
        if (ok) work.push_back({Su, N});
      }
    }
  }
};

} // namespace

Value runOrphan(ASTContext &Ctx) {
  const SourceManager &SM = Ctx.getSourceManager();
  Array fns;
  forEachFunction(Ctx, [&](const FunctionDecl *FD) {
    An A(Ctx, FD);
    A.run();
    if (A.derefs == 0 && A.nodeStores == 0 && A.diags.empty()) return;
    Object f;
    f["q"] = qualName(FD);
    f["inst"] = instName(Ctx, FD);
    f["sig"] = signatureOf(FD);
    f["file"] = relPath(SM, FD->getLocation());
    f["line"] = lineOf(SM, FD->getLocation());
    f["derefs"] = (int64_t)A.derefs;
    f["node_stores"] = (int64_t)A.nodeStores;
    f["states"] = (int64_t)A.states;
    f["gave_up"] = A.giveUp;
    Array ds;
    for (auto &d : A.diags) {
      Object o;
      o["rule"] = d.rule;
      o["sink"] = d.sink;
      o["msg"] = d.msg;
      o["line"] = (int64_t)d.line;
      ds.push_back(std::move(o));
    }
    f["diags"] = std::move(ds);
    fns.push_back(std::move(f));
  });
  Object top;
  top["functions"] = std::move(fns);
  return Value(std::move(top));
}

} // namespace msa
