// facts engine: exports the resolved program of one translation unit as JSON —
// function index, class hierarchy, call graph with resolved callees, and per-function CFGs
// whose elements are the events the rule tables talk about (calls, throws, returns, field
// stores, divisions, branch conditions).  The rules themselves live in /verif/lib/*.py.
#include "common.h"
#include "llvm/Support/FileSystem.h"
#include "llvm/Support/MemoryBuffer.h"

namespace msa {
using llvm::json::Array;
using llvm::json::Object;
using llvm::json::Value;

namespace {

std::vector<std::string> cfgFilters;
bool filtersLoaded = false;

void loadFilters() {
  if (filtersLoaded) return;
  filtersLoaded = true;
  if (Opt.cfgFilter.empty()) return;
  auto Buf = llvm::MemoryBuffer::getFile(Opt.cfgFilter);
  if (!Buf) return;
  llvm::StringRef S = (*Buf)->getBuffer();
  llvm::SmallVector<llvm::StringRef, 64> Lines;
  S.split(Lines, '\n');
  for (auto L : Lines) {
    L = L.trim();
    if (L.empty() || L.startswith("#")) continue;
    cfgFilters.push_back(L.str());
  }
}

bool wantCFG(const std::string &q) {
  loadFilters();
  if (cfgFilters.empty()) return true;
  for (auto &f : cfgFilters) if (q.find(f) != std::string::npos) return true;
  return false;
}

std::string accessName(AccessSpecifier A) {
  switch (A) { case AS_public: return "public"; case AS_protected: return "protected"; case AS_private: return "private"; default: return "none"; }
}

struct Ex {
  ASTContext &Ctx;
  const SourceManager &SM;
  explicit Ex(ASTContext &C) : Ctx(C), SM(C.getSourceManager()) {}

  // callees and referenced names inside an expression (for branch conditions)
  void condAtoms(const Expr *E, Array &calls, Array &refs) {
    struct V : RecursiveASTVisitor<V> {
      Array *calls, *refs;
      bool VisitCallExpr(CallExpr *CE) { if (const FunctionDecl *F = calleeOf(CE)) calls->push_back(qualName(F)); return true; }
      bool VisitDeclRefExpr(DeclRefExpr *DR) { refs->push_back(DR->getDecl()->getNameAsString()); return true; }
      bool VisitMemberExpr(MemberExpr *ME) { refs->push_back(ME->getMemberDecl()->getNameAsString()); return true; }
    } v;
    v.calls = &calls; v.refs = &refs;
    v.TraverseStmt(const_cast<Expr *>(E));
  }

  Array refsOf(const Expr *E) {
    Array calls, refs;
    condAtoms(E, calls, refs);
    return refs;
  }
  // {text, refs, const?} of one operand
  Object operand(const Expr *E) {
    Object o;
    o["text"] = exprText(Ctx, E);
    o["refs"] = refsOf(E);
    Expr::EvalResult ER;
    if (auto *IL = dyn_cast_or_null<IntegerLiteral>(strip(E))) o["const"] = IL->getValue().getSExtValue();
    else if (!E->isValueDependent() && E->getType()->isIntegralOrEnumerationType() && E->EvaluateAsInt(ER, Ctx)) o["const"] = ER.Val.getInt().getExtValue();
    else if (auto *FL = dyn_cast<FloatingLiteral>(strip(E))) { if (FL->getValue().isZero()) o["const"] = 0; }
    return o;
  }
  // structured view of a branch condition: comparison / negation / truth test
  void condShape(const Expr *C0, Object &c) {
    const Expr *C = strip(C0);
    bool neg = false;
    while (auto *UO = dyn_cast_or_null<UnaryOperator>(C)) { if (UO->getOpcode() != UO_LNot) break; neg = !neg; C = strip(UO->getSubExpr()); }
    if (!C) return;
    c["neg"] = neg;
    if (auto *BO = dyn_cast<BinaryOperator>(C)) {
      if (BO->isComparisonOp()) {
        c["op"] = BO->getOpcodeStr().str();
        c["l"] = operand(BO->getLHS());
        c["r"] = operand(BO->getRHS());
        return;
      }
    }
    if (auto *OC = dyn_cast<CXXOperatorCallExpr>(C)) {
      if ((OC->getOperator() == OO_EqualEqual || OC->getOperator() == OO_ExclaimEqual) && OC->getNumArgs() == 2) {
        c["op"] = OC->getOperator() == OO_EqualEqual ? "==" : "!=";
        c["l"] = operand(OC->getArg(0));
        c["r"] = operand(OC->getArg(1));
        return;
      }
    }
    c["op"] = "truth";
    c["l"] = operand(C);
  }

  Object callEvent(const CallExpr *CE) {
    Object o;
    const FunctionDecl *F = calleeOf(CE);
    o["k"] = "call";
    o["q"] = F ? qualName(F) : std::string("?");
    if (F) o["sig"] = signatureOf(F);
    o["line"] = lineOf(SM, CE->getBeginLoc());
    Array args;
    for (const Expr *A : CE->arguments()) args.push_back(isa<CXXDefaultArgExpr>(A) ? std::string("<default>") : exprText(Ctx, A));
    o["args"] = std::move(args);
    {
      // written type of pointer arguments (before the implicit conversion to void*): `setUHdata(&cv)` with long cv -> "long"
      Array at;
      bool any = false;
      for (const Expr *A : CE->arguments()) {
        const Expr *X = strip(A);
        std::string t;
        if (X && X->getType()->isPointerType()) { t = X->getType()->getPointeeType().getUnqualifiedType().getAsString(); any = true; }
        at.push_back(t);
      }
      if (any) o["argptr"] = std::move(at);
    }
    if (auto *MC = dyn_cast<CXXMemberCallExpr>(CE)) {
      if (const Expr *Obj = MC->getImplicitObjectArgument()) {
        o["recv"] = exprText(Ctx, Obj);
        o["recvtype"] = recordNameOf(Obj->getType());
        const Expr *OS = strip(Obj);
        if (auto *DR = dyn_cast_or_null<DeclRefExpr>(OS)) o["recvq"] = qualName(DR->getDecl());
        else if (auto *ME = dyn_cast_or_null<MemberExpr>(OS)) o["recvq"] = qualName(ME->getMemberDecl());
      }
      if (auto *ME = dyn_cast<MemberExpr>(MC->getCallee()->IgnoreParens()))
        o["virt"] = F && cast<CXXMethodDecl>(F)->isVirtual() && !ME->hasQualifier();
    }
    return o;
  }

  bool fieldOf(const Expr *L, std::string &member, std::string &base) {
    const Expr *E = strip(L);
    // a[i] = …, *p = … : look through to the field that holds the storage
    for (int i = 0; i < 6 && E; i++) {
      if (auto *AS = dyn_cast<ArraySubscriptExpr>(E)) { E = strip(AS->getBase()); continue; }
      if (auto *UO = dyn_cast<UnaryOperator>(E)) { if (UO->getOpcode() == UO_Deref) { E = strip(UO->getSubExpr()); continue; } }
      if (auto *OC = dyn_cast<CXXOperatorCallExpr>(E)) { if (OC->getOperator() == OO_Subscript) { E = strip(OC->getArg(0)); continue; } }
      break;
    }
    if (auto *ME = dyn_cast_or_null<MemberExpr>(E)) {
      if (auto *FD = dyn_cast<FieldDecl>(ME->getMemberDecl())) { member = qualName(FD); base = exprText(Ctx, ME->getBase()); return true; }
      if (auto *VD = dyn_cast<VarDecl>(ME->getMemberDecl())) { member = qualName(VD); base = ""; return true; }
    }
    if (auto *DR = dyn_cast_or_null<DeclRefExpr>(E)) {
      if (auto *VD = dyn_cast<VarDecl>(DR->getDecl())) if (VD->isStaticDataMember() || VD->hasGlobalStorage()) { member = qualName(VD); base = ""; return true; }
    }
    return false;
  }

  const VarDecl *localHandleVar(const Expr *E) {
    if (auto *DR = dyn_cast_or_null<DeclRefExpr>(strip(E)))
      if (auto *VD = dyn_cast<VarDecl>(DR->getDecl())) if (VD->isLocalVarDeclOrParm() && (isNodeHandleType(VD->getType()) || VD->getType()->isBooleanType() || VD->getType()->isEnumeralType())) return VD;
    return nullptr;
  }

  bool stmtEvent(const Stmt *S, Object &o) {
    if (auto *CE = dyn_cast<CallExpr>(S)) {
      o = callEvent(CE);
      // local node_handle variables handed to a non-const reference parameter are (re)defined by the call
      if (const FunctionDecl *F = calleeOf(CE)) {
        Array defs;
        unsigned off = (isa<CXXOperatorCallExpr>(CE) && isa<CXXMethodDecl>(F)) ? 1 : 0;
        for (unsigned i = 0; i + off < CE->getNumArgs() && i < F->getNumParams(); i++) {
          QualType PT = F->getParamDecl(i)->getType();
          if (PT->isLValueReferenceType() && !PT.getNonReferenceType().isConstQualified())
            if (const VarDecl *VD = localHandleVar(CE->getArg(i + off))) defs.push_back(VD->getNameAsString());
        }
        if (!defs.empty()) o["defs"] = std::move(defs);
      }
      return true;
    }
    if (auto *DS = dyn_cast<DeclStmt>(S)) {
      for (auto *D : DS->decls()) if (auto *VD = dyn_cast<VarDecl>(D)) if ((isNodeHandleType(VD->getType()) || VD->getType()->isIntegralOrEnumerationType()) && !VD->getType()->isReferenceType() && (VD->hasInit() || isNodeHandleType(VD->getType()))) {
        o["k"] = "ldef";
        o["var"] = VD->getNameAsString();
        o["rhs"] = VD->hasInit() ? exprText(Ctx, VD->getInit()) : std::string("");
        o["line"] = lineOf(SM, VD->getLocation());
        o["vtype"] = VD->getType().getUnqualifiedType().getAsString();
        if (VD->hasInit() && VD->getType()->isIntegerType()) {
          // implicit narrowing: the initialiser (before implicit conversions) is a wider integer than the variable
          QualType IT = VD->getInit()->IgnoreParenImpCasts()->getType();
          if (!IT.isNull() && IT->isIntegerType() && !IT->isDependentType() && Ctx.getTypeSize(IT) > Ctx.getTypeSize(VD->getType())) {
            o["narrow"] = true;
            o["itype"] = IT.getUnqualifiedType().getAsString();
          }
        }
        return true;
      }
      // pointer locals initialised by a call (chunk addresses, raw regions): kept for the stale-pointer rule
      for (auto *D : DS->decls()) if (auto *VD = dyn_cast<VarDecl>(D)) if (VD->getType()->isPointerType() && VD->hasInit() && !isa<CXXNewExpr>(strip(VD->getInit()))) {
          o["k"] = "ldef";
          o["var"] = VD->getNameAsString();
          o["rhs"] = exprText(Ctx, VD->getInit());
          if (auto *CE = dyn_cast_or_null<CallExpr>(strip(VD->getInit()))) if (const FunctionDecl *F = calleeOf(CE)) o["callq"] = qualName(F);
          o["ptr"] = true;
          o["line"] = lineOf(SM, VD->getLocation());
          return true;
        }
      return false;
    }
    if (auto *BO0 = dyn_cast<BinaryOperator>(S)) if (BO0->getOpcode() == BO_Assign && BO0->getLHS()->getType()->isPointerType())
      if (auto *DR = dyn_cast<DeclRefExpr>(strip(BO0->getLHS()))) if (auto *VD = dyn_cast<VarDecl>(DR->getDecl())) if (VD->isLocalVarDeclOrParm())
        if (auto *CE = dyn_cast_or_null<CallExpr>(strip(BO0->getRHS()))) if (const FunctionDecl *F = calleeOf(CE)) {
          o["k"] = "ldef";
          o["var"] = VD->getNameAsString();
          o["rhs"] = exprText(Ctx, BO0->getRHS());
          o["callq"] = qualName(F);
          o["ptr"] = true;
          o["line"] = lineOf(SM, BO0->getBeginLoc());
          return true;
        }
    if (auto *CC = dyn_cast<CXXConstructExpr>(S)) {
      o["k"] = "construct";
      o["q"] = qualName(CC->getConstructor());
      o["sig"] = signatureOf(CC->getConstructor());
      o["line"] = lineOf(SM, CC->getBeginLoc());
      Array args;
      for (const Expr *A : CC->arguments()) args.push_back(isa<CXXDefaultArgExpr>(A) ? std::string("<default>") : exprText(Ctx, A));
      o["args"] = std::move(args);
      return true;
    }
    if (auto *NE = dyn_cast<CXXNewExpr>(S)) {
      o["k"] = "new";
      o["type"] = NE->getAllocatedType().getAsString();
      if (!NE->isArray()) if (const CXXRecordDecl *RD = NE->getAllocatedType()->getAsCXXRecordDecl()) o["rec"] = RD->getNameAsString();
      o["line"] = lineOf(SM, NE->getBeginLoc());
      o["text"] = exprText(Ctx, NE);
      return true;
    }
    if (auto *DE = dyn_cast<CXXDeleteExpr>(S)) {
      o["k"] = "delete";
      o["text"] = exprText(Ctx, DE->getArgument());
      o["line"] = lineOf(SM, DE->getBeginLoc());
      return true;
    }
    if (auto *EC = dyn_cast<ExplicitCastExpr>(S)) {
      // reinterpretation of a raw pointer handed out by a call (header regions, chunk addresses): the element type matters
      if (EC->getType()->isPointerType()) if (auto *CE = dyn_cast_or_null<CallExpr>(strip(EC->getSubExpr()))) if (const FunctionDecl *F = calleeOf(CE)) {
        o["k"] = "cast";
        o["to"] = EC->getType()->getPointeeType().getUnqualifiedType().getAsString();
        o["of"] = qualName(F);
        o["line"] = lineOf(SM, EC->getBeginLoc());
        return true;
      }
      return false;
    }
    if (auto *TE = dyn_cast<CXXThrowExpr>(S)) {
      o["k"] = "throw";
      o["code"] = errorCodeOf(TE);
      o["line"] = lineOf(SM, TE->getBeginLoc());
      return true;
    }
    if (auto *RS = dyn_cast<ReturnStmt>(S)) {
      o["k"] = "ret";
      o["text"] = RS->getRetValue() ? exprText(Ctx, RS->getRetValue()) : std::string("");
      if (RS->getRetValue()) { Object v = operand(RS->getRetValue()); if (v.get("const")) o["const"] = *v.get("const"); o["refs"] = std::move(*v.get("refs")); }
      o["line"] = lineOf(SM, RS->getBeginLoc());
      return true;
    }
    if (auto *BO = dyn_cast<BinaryOperator>(S)) {
      auto op = BO->getOpcode();
      if (op == BO_Div || op == BO_Rem || op == BO_DivAssign || op == BO_RemAssign) {
        o["k"] = "div";
        o["op"] = BO->getOpcodeStr().str();
        o["lhs"] = exprText(Ctx, BO->getLHS());
        o["rhs"] = exprText(Ctx, BO->getRHS());
        o["rhslit"] = isa<IntegerLiteral>(strip(BO->getRHS())) || isa<FloatingLiteral>(strip(BO->getRHS()));
        o["rhsrefs"] = refsOf(BO->getRHS());
        o["line"] = lineOf(SM, BO->getBeginLoc());
        return true;
      }
      if (op == BO_Shl || op == BO_Shr || op == BO_Or || op == BO_And || op == BO_ShlAssign || op == BO_ShrAssign || op == BO_OrAssign || op == BO_AndAssign) {
        o["k"] = "bin";
        o["op"] = BO->getOpcodeStr().str();
        o["l"] = operand(BO->getLHS());
        o["r"] = operand(BO->getRHS());
        o["line"] = lineOf(SM, BO->getBeginLoc());
        return true;
      }
      if (BO->getOpcode() == BO_Assign) if (auto *AS = dyn_cast<ArraySubscriptExpr>(strip(BO->getLHS())))
        if (auto *DR = dyn_cast<DeclRefExpr>(strip(AS->getBase()))) if (auto *VD = dyn_cast<VarDecl>(DR->getDecl())) if (VD->isLocalVarDeclOrParm()) {
          // element store into a local array / pointer: index expression kept for traversal-order comparisons
          o["k"] = "astore";
          o["var"] = VD->getNameAsString();
          o["index"] = exprText(Ctx, AS->getIdx());
          o["rhs"] = exprText(Ctx, BO->getRHS());
          o["line"] = lineOf(SM, BO->getBeginLoc());
          return true;
        }
      if (BO->isAssignmentOp()) if (const VarDecl *VD = localHandleVar(BO->getLHS())) {
        o["k"] = "ldef";
        o["var"] = VD->getNameAsString();
        o["rhs"] = exprText(Ctx, BO->getRHS());
        o["line"] = lineOf(SM, BO->getBeginLoc());
        return true;
      }
      // assignments (plain and compound) to other local arithmetic variables: kept with their operator for twin comparisons
      if (BO->isAssignmentOp()) if (auto *DR = dyn_cast<DeclRefExpr>(strip(BO->getLHS()))) if (auto *VD = dyn_cast<VarDecl>(DR->getDecl()))
        if (VD->isLocalVarDeclOrParm() && VD->getType()->isArithmeticType()) {
          o["k"] = "ldef";
          o["var"] = VD->getNameAsString();
          o["rhs"] = exprText(Ctx, BO->getRHS());
          o["op"] = BO->getOpcodeStr().str();
          o["vtype"] = VD->getType().getUnqualifiedType().getAsString();
          o["line"] = lineOf(SM, BO->getBeginLoc());
          return true;
        }
      if (BO->isAssignmentOp()) {
        std::string member, base;
        if (fieldOf(BO->getLHS(), member, base)) {
          o["k"] = "store";
          o["member"] = member;
          o["base"] = base;
          o["lhs"] = exprText(Ctx, BO->getLHS());
          o["rhs"] = exprText(Ctx, BO->getRHS());
          if (auto *NE = dyn_cast_or_null<CXXNewExpr>(strip(BO->getRHS()))) { if (!NE->isArray()) if (const CXXRecordDecl *RD = NE->getAllocatedType()->getAsCXXRecordDecl()) o["rhsnew"] = RD->getNameAsString(); }
          o["op"] = BO->getOpcodeStr().str();
          o["line"] = lineOf(SM, BO->getBeginLoc());
          return true;
        }
      }
      return false;
    }
    if (auto *UO = dyn_cast<UnaryOperator>(S)) {
      if (UO->isIncrementDecrementOp()) {
        std::string member, base;
        if (fieldOf(UO->getSubExpr(), member, base)) {
          o["k"] = "store";
          o["member"] = member;
          o["base"] = base;
          o["lhs"] = exprText(Ctx, UO->getSubExpr());
          o["rhs"] = std::string(UnaryOperator::getOpcodeStr(UO->getOpcode()));
          o["op"] = "incdec";
          o["line"] = lineOf(SM, UO->getBeginLoc());
          return true;
        }
      }
      return false;
    }
    return false;
  }

  Value cfgOf(const FunctionDecl *FD) {
    std::unique_ptr<CFG> cfg = buildCFG(Ctx, FD);
    if (!cfg) return nullptr;
    Object g;
    g["entry"] = (int64_t)cfg->getEntry().getBlockID();
    g["exit"] = (int64_t)cfg->getExit().getBlockID();
    Array blocks;
    for (const CFGBlock *B : *cfg) {
      Object b;
      b["id"] = (int64_t)B->getBlockID();
      Array ev;
      for (const CFGElement &E : *B) {
        if (auto CS = E.getAs<CFGStmt>()) {
          Object o;
          if (stmtEvent(CS->getStmt(), o)) ev.push_back(std::move(o));
        } else if (auto CI = E.getAs<CFGInitializer>()) {
          const CXXCtorInitializer *I = CI->getInitializer();
          Object o;
          o["k"] = "init";
          if (I->isAnyMemberInitializer()) o["member"] = I->getAnyMember()->getNameAsString();
          else if (I->isBaseInitializer()) o["base"] = recordNameOf(QualType(I->getBaseClass(), 0));
          o["text"] = exprText(Ctx, I->getInit());
          if (auto *NE = dyn_cast_or_null<CXXNewExpr>(strip(I->getInit()))) { if (!NE->isArray()) if (const CXXRecordDecl *RD = NE->getAllocatedType()->getAsCXXRecordDecl()) o["rhsnew"] = RD->getNameAsString(); }
          o["line"] = lineOf(SM, I->getSourceLocation());
          ev.push_back(std::move(o));
        }
      }
      b["ev"] = std::move(ev);
      Array succ;
      for (auto SI = B->succ_begin(); SI != B->succ_end(); ++SI) {
        const CFGBlock *S = SI->getReachableBlock();
        succ.push_back(S ? (int64_t)S->getBlockID() : (int64_t)-1);
      }
      b["succ"] = std::move(succ);
      if (const Stmt *L = B->getLabel()) {
        if (auto *CS = dyn_cast<CaseStmt>(L)) b["label"] = "case " + exprText(Ctx, CS->getLHS());
        else if (isa<DefaultStmt>(L)) b["label"] = "default";
      }
      if (const Stmt *T = B->getTerminatorStmt()) {
        b["term"] = T->getStmtClassName();
        if (auto *FS = dyn_cast<ForStmt>(T)) {
          b["forinit"] = FS->getInit() ? exprText(Ctx, FS->getInit()) : std::string("");
          b["forinc"] = FS->getInc() ? exprText(Ctx, FS->getInc()) : std::string("");
        }
        b["tline"] = lineOf(SM, T->getBeginLoc());
        if (const Expr *C = effectiveCond(B)) {
          Object c;
          c["text"] = exprText(Ctx, C);
          Array calls, refs;
          condAtoms(C, calls, refs);
          c["calls"] = std::move(calls);
          c["refs"] = std::move(refs);
          condShape(C, c);
          b["cond"] = std::move(c);
        }
      }
      // a block whose last element is a call to a noreturn function or a throw has the exit as successor
      blocks.push_back(std::move(b));
    }
    g["blocks"] = std::move(blocks);
    return Value(std::move(g));
  }
};

} // namespace

Value runFacts(ASTContext &Ctx) {
  Ex ex(Ctx);
  const SourceManager &SM = Ctx.getSourceManager();
  Array fns;
  std::set<const CXXRecordDecl *> classes;

  // A non-template function defined in header X.h is exported only from unit X.cc when that unit
  // exists (X.cc always includes X.h), so the 115 units do not each re-export forest.h's inlines.
  std::string mainFile = relPath(SM, SM.getLocForStartOfFile(SM.getMainFileID()));
  auto stem = [](const std::string &p) { size_t d = p.rfind('.'); return d == std::string::npos ? p : p.substr(0, d); };
  forEachFunction(Ctx, [&](const FunctionDecl *FD) {
    std::string defFile = relPath(SM, FD->getLocation());
    if (defFile != mainFile && !FD->isTemplateInstantiation()) {
      std::string owner = Opt.srcRoot + "/" + stem(defFile) + ".cc";
      if (stem(defFile) != stem(mainFile) && llvm::sys::fs::exists(owner)) return;
    }
    Object f;
    std::string q = qualName(FD);
    f["q"] = q;
    f["inst"] = instName(Ctx, FD);
    f["sig"] = signatureOf(FD);
    {
      Array ps;
      for (unsigned i = 0; i < FD->getNumParams(); i++) {
        Object po;
        po["name"] = FD->getParamDecl(i)->getNameAsString();
        po["rec"] = recordNameOf(FD->getParamDecl(i)->getType());
        po["handle"] = isNodeHandleType(FD->getParamDecl(i)->getType());
        ps.push_back(std::move(po));
      }
      f["params"] = std::move(ps);
    }
    f["file"] = relPath(SM, FD->getLocation());
    f["line"] = lineOf(SM, FD->getLocation());
    f["endline"] = lineOf(SM, FD->getEndLoc());
    f["tmpl"] = FD->isTemplateInstantiation();
    f["rettype"] = FD->getReturnType().getAsString();
    if (auto *MD = dyn_cast<CXXMethodDecl>(FD)) {
      const CXXRecordDecl *RD = MD->getParent();
      f["class"] = qualName(RD);
      f["access"] = accessName(MD->getAccess());
      f["virtual"] = MD->isVirtual();
      f["static"] = MD->isStatic();
      Array ov;
      for (const CXXMethodDecl *O : MD->overridden_methods()) ov.push_back(qualName(O) + signatureOf(O));
      f["overrides"] = std::move(ov);
      f["ctor"] = isa<CXXConstructorDecl>(MD);
      f["dtor"] = isa<CXXDestructorDecl>(MD);
      classes.insert(RD);
    }
    // call graph: every resolved callee below the body (and constructor initialisers)
    struct CV : RecursiveASTVisitor<CV> {
      Array *out; const SourceManager *SM;
      bool shouldVisitTemplateInstantiations() const { return false; }
      bool VisitCallExpr(CallExpr *CE) {
        if (const FunctionDecl *F = calleeOf(CE)) {
          Object o; o["q"] = qualName(F); o["sig"] = signatureOf(F); o["line"] = lineOf(*SM, CE->getBeginLoc());
          if (auto *MC = dyn_cast<CXXMemberCallExpr>(CE)) if (auto *ME = dyn_cast<MemberExpr>(MC->getCallee()->IgnoreParens()))
            o["virt"] = cast<CXXMethodDecl>(F)->isVirtual() && !ME->hasQualifier();
          out->push_back(std::move(o));
        }
        return true;
      }
      bool VisitCXXConstructExpr(CXXConstructExpr *CC) {
        Object o; o["q"] = qualName(CC->getConstructor()); o["sig"] = signatureOf(CC->getConstructor()); o["line"] = lineOf(*SM, CC->getBeginLoc());
        out->push_back(std::move(o));
        return true;
      }
      bool VisitCXXDeleteExpr(CXXDeleteExpr *DE) {
        QualType T = DE->getDestroyedType();
        if (!T.isNull()) if (const CXXRecordDecl *RD = T->getAsCXXRecordDecl()) if (RD->hasDefinition()) if (const CXXDestructorDecl *DD = RD->getDestructor()) {
          Object o; o["q"] = qualName(DD); o["sig"] = "()"; o["line"] = lineOf(*SM, DE->getBeginLoc()); o["virt"] = DD->isVirtual();
          out->push_back(std::move(o));
        }
        return true;
      }
    } cv;
    Array calls;
    cv.out = &calls; cv.SM = &SM;
    cv.TraverseDecl(const_cast<FunctionDecl *>(FD));
    f["calls"] = std::move(calls);
    if (wantCFG(q)) f["cfg"] = ex.cfgOf(FD);
    fns.push_back(std::move(f));
  });

  Array cls;
  std::set<const CXXRecordDecl *> done;
  std::function<void(const CXXRecordDecl *)> addClass = [&](const CXXRecordDecl *RD) {
    if (!RD || !RD->hasDefinition()) return;
    RD = RD->getDefinition();
    if (!done.insert(RD).second) return;
    Object c;
    c["q"] = qualName(RD);
    Array bases;
    for (const auto &B : RD->bases()) if (const CXXRecordDecl *BD = B.getType()->getAsCXXRecordDecl()) { bases.push_back(qualName(BD)); addClass(BD); }
    c["bases"] = std::move(bases);
    cls.push_back(std::move(c));
  };
  for (auto *RD : classes) addClass(RD);

  Object top;
  top["functions"] = std::move(fns);
  top["classes"] = std::move(cls);
  return Value(std::move(top));
}

} // namespace msa
