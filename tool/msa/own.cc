// own engine (DESIGN §2.1): reference-ownership typing of MEDDLY::node_handle values.
// Per-function, path-sensitive forward dataflow over the clang CFG.  Token of a handle value:
//   U untracked · T terminal · B borrowed · O owns one reference · M moved (ownership handed on)
// Alarms only on definite facts; anything unmodelled degrades to U (a possible miss, never an alarm).
#include "common.h"

namespace msa {
using llvm::json::Array;
using llvm::json::Object;
using llvm::json::Value;

namespace {

enum Tok { U, T, B, O, M, D };   // D: dangling — borrowed from a handle that has since been released
static const char* tokName(Tok t) { switch (t) { case U: return "U"; case T: return "T"; case B: return "B"; case O: return "O"; case D: return "D"; default: return "M"; } }

enum Role { R_BORROW, R_CONSUME, R_OUT_OWNED, R_INOUT, R_OUT_BORROWED, R_IGNORE, R_OUT_TERMINAL, R_TERMINAL_IN, R_CONSUME_ZERO };
enum Ret { RET_NONE, RET_OWNED, RET_BORROWED, RET_TERMINAL, RET_UNKNOWN };

struct Summary {
  std::map<unsigned, Role> params; // index (0-based, among all params) -> role
  Ret ret = RET_UNKNOWN;
};

// ---- summaries by (unqualified class::name) -------------------------------------------------
static bool getSummary(const FunctionDecl *FD, Summary &S) {
  std::string q = FD->getQualifiedNameAsString();
  // strip template args in qualified name for matching
  auto has = [&](const char *s) { return q.find(s) != std::string::npos; };
  auto ends = [&](const std::string &suf) { return q.size() >= suf.size() && q.compare(q.size() - suf.size(), suf.size(), suf) == 0; };
  unsigned n = FD->getNumParams();
  // default: by-value node_handle -> borrow, node_handle& -> out-owned
  for (unsigned i = 0; i < n; i++) {
    bool isRef; if (!isNodeHandleType(FD->getParamDecl(i)->getType(), isRef)) continue;
    bool isConst = FD->getParamDecl(i)->getType().getNonReferenceType().isConstQualified();
    S.params[i] = (isRef && !isConst) ? R_OUT_OWNED : R_BORROW;
  }
  bool r; S.ret = isNodeHandleType(FD->getReturnType(), r) ? RET_UNKNOWN : RET_NONE;

  if (ends("forest::linkNode")) { S.ret = RET_OWNED; return true; }
  if (ends("forest::unlinkNode")) { S.params[0] = R_CONSUME; return true; }
  if (ends("node_headers::linkNode")) { S.ret = RET_OWNED; return true; }
  if (ends("node_headers::unlinkNode")) { S.params[0] = R_CONSUME; return true; }
  if (ends("forest::makeRedundantsTo") || ends("forest::_makeRedundantsTo") ||
      ends("forest::makeIdentitiesTo") || ends("forest::_makeIdentitiesTo")) { S.params[0] = R_CONSUME; S.ret = RET_OWNED; return true; }
  if (ends("forest::redirectSingleton")) { S.params[1] = R_CONSUME; S.ret = RET_OWNED; return true; }
  if (ends("unpacked_node::setFull") || ends("unpacked_node::setSparse")) {
    for (auto &p : S.params) p.second = R_CONSUME; return true; }
  if (ends("dd_edge::set")) { for (auto &p : S.params) p.second = R_CONSUME; return true; }
  if (ends("dd_edge::set_and_link")) { return true; }
  if (ends("dd_edge::xferNode")) { S.params[0] = R_OUT_OWNED; return true; }
  if (ends("dd_edge::getNode")) { S.ret = RET_BORROWED; return true; }
  // relation-node abstraction: both return a child pointer of the node being read (unp->down(i) / getDownPtr): borrowed
  if (ends("rel_node::getDiagonal") || ends("rel_node_from_dd::getDiagonal")) { S.ret = RET_BORROWED; return true; }
  if (ends("unpacked_node::down")) { S.ret = RET_UNKNOWN; return true; }
  if (ends("ct_item::getN")) { S.ret = RET_BORROWED; return true; }
  if (ends("terminal::getHandle") || ends("terminal::getIntegerHandle") || ends("terminal::getRealHandle") ||
      ends("forest::handleForValue") || ends("forest::getTransparentNode")) { S.ret = RET_TERMINAL; return true; }
  if (ends("forest::getDownPtr")) { S.ret = RET_BORROWED; for (auto &p : S.params) if (p.second == R_OUT_OWNED) p.second = R_OUT_BORROWED; return true; }
  if (ends("forest::isSingletonNode") || ends("node_storage::isSingletonNode")) { for (auto &p : S.params) if (p.second == R_OUT_OWNED) p.second = R_OUT_BORROWED; return true; }
  if (ends("forest::getEdgeForValue") || ends("forest::getTransparentEdge")) { for (auto &p : S.params) if (p.second == R_OUT_OWNED) p.second = R_OUT_TERMINAL; return true; }
  if (ends("::chainToLevel")) { S.params[0] = R_INOUT; return true; }
  if (ends("fbuilder_forest::addToNode")) { for (auto &p : S.params) p.second = R_CONSUME; return true; }
  if (ends("fbuilder_common::accumulate")) { // (L,in,av, ap&, cv, cp&): ap consumed (set 0), cp in-out
    bool first = true; for (auto &p : S.params) { if (p.second == R_OUT_OWNED) { p.second = first ? R_CONSUME_ZERO : R_INOUT; first = false; } } return true; }
  if (ends("fbuilder_forest::setPathToBottom") || ends("fbuilder_forest::relPathToBottom") || ends("fbuilder_forest::identityPattern")) {
    for (auto &p : S.params) if (p.second == R_OUT_OWNED) p.second = R_INOUT; return true; }
  if (ends("::simplifiesToFirstArg") || ends("::simplifiesToSecondArg")) { for (auto &p : S.params) if (p.second == R_OUT_OWNED) p.second = R_IGNORE; return true; }
  if (ends("::normalize")) { return true; }
  if (has("createReducedNode")) {
    // new style: (un, ev, node&, in) ; old: (in, un) returns owned ; templ old (in, un, ev&, node&)
    if (S.ret != RET_NONE) S.ret = RET_OWNED;
    return true; }
  if (ends("SWAP")) { for (auto &p : S.params) p.second = R_IGNORE; return true; }
  if (ends("::identity_complement") || ends("::_identity_complement")) { S.params[0] = R_CONSUME; S.ret = RET_OWNED; return true; }
  if (ends("::F_identity") || ends("::_F_identity")) { for (auto &p : S.params) if (p.second == R_OUT_OWNED) p.second = R_INOUT; return true; }
  if (ends("::addToCi")) { for (auto &p : S.params) if (p.second == R_BORROW) p.second = R_CONSUME; return true; }
  if (ends("::apply")) { for (auto &p : S.params) if (p.second == R_BORROW) p.second = R_TERMINAL_IN; return true; }
  if (ends("::setUnreachable")) { for (auto &p : S.params) if (p.second == R_OUT_OWNED) p.second = R_OUT_TERMINAL; return true; }
  if (has("evaluator_helper")) { for (auto &p : S.params) if (p.second == R_OUT_OWNED) p.second = R_IGNORE; return true; }
  if (ends("node_storage::getDownPtr") || ends("simple_separated::getDownPtr")) { S.ret = RET_BORROWED; for (auto &p : S.params) if (p.second == R_OUT_OWNED) p.second = R_OUT_BORROWED; return true; }
  if (ends("::makeEqualResult")) { return true; }
  if (ends("::nextEdge")) { for (auto &p : S.params) if (p.second == R_OUT_OWNED) p.second = R_OUT_BORROWED; return true; }
  return false;
}

// ---- abstract state ---------------------------------------------------------------------------
struct State {
  std::map<const VarDecl*, int> var2val;    // variable -> value id
  std::vector<Tok> tok;                     // value id -> token
  std::map<const Expr*, int> tmp;           // call results pending consumption
  std::map<const VarDecl*, int> flags;      // local bool -> 0/1
  std::map<const VarDecl*, int> nodeKind;   // unpacked_node* var -> 1 readable, 2 writable, 3 redundant-of
  std::map<const VarDecl*, int> nodeOrigin; // for kind 3: value id of the filled handle
  std::map<int, int> from;                  // borrowed value id -> value id of the handle it was read from (getDownPtr / isSingletonNode)
  std::map<const VarDecl*, int> nodeLife;   // unpacked_node* local from a factory: 0 untracked, 1 live, 2 recycled/reduced
  std::string key() const {
    std::ostringstream os;
    // canonical renumbering
    std::map<int,int> ren; int next = 0;
    for (auto &p : var2val) { if (!ren.count(p.second)) ren[p.second] = next++; os << (const void*)p.first << ":" << ren[p.second] << tokName(tok[p.second]) << ";"; }
    for (auto &p : tmp) { os << "t" << (const void*)p.first << tokName(tok[p.second]) << ";"; }
    for (auto &p : flags) os << "f" << (const void*)p.first << p.second << ";";
    for (auto &p : nodeKind) os << "n" << (const void*)p.first << p.second << ";";
    for (auto &p : nodeLife) os << "l" << (const void*)p.first << p.second << ";";
    return os.str();
  }
  int fresh(Tok t) { tok.push_back(t); return (int)tok.size() - 1; }
};

struct Diag { std::string rule, sink, msg; unsigned line; };

class FnAnalyzer {
public:
  FnAnalyzer(ASTContext &C, const FunctionDecl *F) : Ctx(C), FD(F), SM(C.getSourceManager()) {}
  std::vector<Diag> diags;
  unsigned nStates = 0, nTracked = 0, nSuppressed = 0, nEvents = 0;
  bool giveUp = false, partial = false;
  std::set<const Stmt *> countedEvents;
  std::set<std::string> unknownRet;   // callees whose handle result is treated as unknown (review list)
  void event(const Stmt *S) { if (countedEvents.insert(S).second) nEvents++; }

  unsigned lineOf(const Stmt *S) { return msa::lineOf(SM, S->getBeginLoc()); }
  void report(const char *rule, const Stmt *S, const std::string &sink, const std::string &m) {
    unsigned l = S ? lineOf(S) : 0;
    {
      // named suppressions: (function substring, variable, rule, reason)
      static const char* sup[][4] = {
        {"fbuilder", "dnc_node", "own.leak", "DONT_CARE arm of the partition loop runs at most once (values strictly increase)"},
        {"_identity_complement", "'p'", "own.leak", "incoming index `in` is a valid index of the level, so the j==in arm runs exactly once"},
        {"_F_identity", "'p'", "own.leak", "incoming index `in` is a valid index of the level, so the j==in arm runs exactly once"},
        {nullptr,nullptr,nullptr,nullptr}};
      std::string q = FD->getQualifiedNameAsString();
      for (int i = 0; sup[i][0]; i++) if (q.find(sup[i][0]) != std::string::npos && m.find(sup[i][1]) != std::string::npos && std::string(rule) == sup[i][2]) { nSuppressed++; return; }
    }
    for (auto &d : diags) if (d.rule == rule && d.line == l && d.msg == m) return;
    diags.push_back({rule, sink, m, l});
  }

  bool isTracked(const VarDecl *VD) { return tracked.count(VD); }

  // value of an expression of handle type in state S; returns value id (creating one if needed)
  int valueOf(State &S, const Expr *E0) {
    const Expr *E = strip(E0);
    if (!E) return S.fresh(U);
    if (auto *DR = dyn_cast<DeclRefExpr>(E)) {
      if (auto *VD = dyn_cast<VarDecl>(DR->getDecl())) {
        if (isTracked(VD)) {
          auto it = S.var2val.find(VD);
          if (it != S.var2val.end()) return it->second;
          int v = S.fresh(U); S.var2val[VD] = v; return v;
        }
        std::string n = VD->getNameAsString();
        if (n.rfind("OMEGA_", 0) == 0) return S.fresh(T);
      }
      return S.fresh(U);
    }
    if (isa<IntegerLiteral>(E)) return S.fresh(T);
    if (auto *UO = dyn_cast<UnaryOperator>(E)) { if (UO->getOpcode() == UO_Minus && isa<IntegerLiteral>(strip(UO->getSubExpr()))) return S.fresh(T); }
    if (auto *CO = dyn_cast<ConditionalOperator>(E)) {
      // both arms: if both same token class, use it; else U
      int a = valueOf(S, CO->getTrueExpr()), b = valueOf(S, CO->getFalseExpr());
      if (a == b) return a;
      if (S.tok[a] == S.tok[b] && (S.tok[a] == T || S.tok[a] == B)) return S.fresh(S.tok[a]);
      return S.fresh(U);
    }
    auto it = S.tmp.find(E);
    if (it != S.tmp.end()) return it->second;
    // element of a `const std::vector<node_handle>&` parameter (the reader's handle map): the vector keeps its reference
    if (auto *OC = dyn_cast<CXXOperatorCallExpr>(E)) if (OC->getOperator() == OO_Subscript && OC->getNumArgs() == 2)
      if (auto *DR = dyn_cast<DeclRefExpr>(strip(OC->getArg(0)))) if (auto *PV = dyn_cast<ParmVarDecl>(DR->getDecl())) {
        QualType PT = PV->getType();
        if (PT->isReferenceType() && PT.getNonReferenceType().isConstQualified()) {
          // std::vector's const_reference loses the typedef: look at the element type as written in the parameter's declaration
          bool handles = isNodeHandleType(E->getType());
          QualType VT = PT.getNonReferenceType();
          for (int i = 0; i < 4 && !handles; i++) {
            if (auto *ET = dyn_cast<ElaboratedType>(VT.getTypePtr())) { VT = ET->getNamedType(); continue; }
            if (auto *TS = dyn_cast<TemplateSpecializationType>(VT.getTypePtr())) {
              if (TS->getNumArgs() >= 1 && TS->getArg(0).getKind() == TemplateArgument::Type) handles = isNodeHandleType(TS->getArg(0).getAsType());
            }
            break;
          }
          if (handles) return S.fresh(B);
        }
      }
    if (auto *MC = dyn_cast<CXXMemberCallExpr>(E)) if (const CXXMethodDecl *MD = MC->getMethodDecl()) if (MD->getNameAsString() == "down") {
      if (const VarDecl *NV = nodeVarOf(MC->getImplicitObjectArgument())) { auto k = S.nodeKind.find(NV); if (k != S.nodeKind.end() && (k->second == 1 || k->second == 3)) return S.fresh(B); }
      // a child pointer read through a const node (const unpacked_node& / const unpacked_node* parameter): the node keeps its reference
      if (MD->isConst() && qualName(MD->getParent()) == "MEDDLY::unpacked_node") {
        QualType OT = MC->getImplicitObjectArgument()->getType();
        if (OT->isPointerType()) OT = OT->getPointeeType();
        if (OT.isConstQualified()) return S.fresh(B);
      }
    }
    return S.fresh(U);
  }

  bool nodeVarOfDecl(const VarDecl *VD) {
    QualType QT = VD->getType(); if (QT->isPointerType() || QT->isReferenceType()) QT = QT->getPointeeType();
    if (const CXXRecordDecl *RD = QT->getAsCXXRecordDecl()) return RD->getName() == "unpacked_node"; return false; }
  const VarDecl* nodeVarOf(const Expr *E0) {
    const Expr *E = strip(E0);
    if (auto *UO = dyn_cast_or_null<UnaryOperator>(E)) if (UO->getOpcode() == UO_Deref) E = strip(UO->getSubExpr());
    if (auto *DR = dyn_cast_or_null<DeclRefExpr>(E)) if (auto *VD = dyn_cast<VarDecl>(DR->getDecl())) {
      QualType QT = VD->getType(); if (QT->isPointerType() || QT->isReferenceType()) QT = QT->getPointeeType();
      if (const CXXRecordDecl *RD = QT->getAsCXXRecordDecl()) if (RD->getName() == "unpacked_node") return VD;
    }
    return nullptr;
  }

  // is statement At inside the then-branch of `if (loopvar == expr)` where loopvar is declared in an enclosing for-init?
  bool underUniqueIndexGuard(const Stmt *At) {
    DynTypedNode N = DynTypedNode::create(*At);
    for (int depth = 0; depth < 12; depth++) {
      auto Ps = Ctx.getParents(N); if (Ps.empty()) return false;
      const DynTypedNode &P = Ps[0];
      if (const IfStmt *IS = P.get<IfStmt>()) {
        const Expr *C = strip(IS->getCond());
        if (auto *BO = dyn_cast_or_null<BinaryOperator>(C)) if (BO->getOpcode() == BO_EQ) {
          for (const Expr *Side : {BO->getLHS(), BO->getRHS()}) if (auto *DR = dyn_cast_or_null<DeclRefExpr>(strip(Side))) if (auto *VD = dyn_cast<VarDecl>(DR->getDecl())) {
            auto VPs = Ctx.getParents(*VD);
            if (!VPs.empty()) if (const DeclStmt *DS = VPs[0].get<DeclStmt>()) { auto DPs = Ctx.getParents(*DS); if (!DPs.empty() && DPs[0].get<ForStmt>()) {
              // make sure we are in the then branch
              const Stmt *Child = N.get<Stmt>(); if (Child && IS->getThen() == Child) return true; } }
          }
        }
      }
      N = P;
    }
    return false;
  }

  void consume(State &S, const Expr *Arg, const Stmt *At, const std::string &what) {
    event(At);
    int v = valueOf(S, Arg);
    Tok t = S.tok[v];
    if (t == D) { report("own.use-after-release", At, what + "(" + exprText(Arg) + ")", "handle `" + exprText(Arg) + "` was only borrowed from a node that has already been unlinked (it may have been reclaimed) and is given to " + what); return; }
    if (t == B) report("own.borrowed-escapes", At, what + "(" + exprText(Arg) + ")", "borrowed handle given to owning sink " + what + ": " + exprText(Arg));
    else if (t == M) { if (!underUniqueIndexGuard(At)) report("own.double-move", At, what + "(" + exprText(Arg) + ")", "already-moved handle given to owning sink " + what + ": " + exprText(Arg)); }
    else if (t == O) S.tok[v] = M;
    // releasing a handle invalidates what was only borrowed from it (its child pointers)
    if (what == "unlinkNode") for (auto &fr : S.from) if (fr.second == v && S.tok[fr.first] == B) S.tok[fr.first] = D;
  }

  std::string exprText(const Expr *E) { return msa::exprText(Ctx, E); }

  void overwriteVar(State &S, const VarDecl *VD, int newVal, const Stmt *At) {
    event(At);
    auto it = S.var2val.find(VD);
    if (it != S.var2val.end()) {
      int old = it->second;
      if (S.tok[old] == O && old != newVal) {
        // any other variable aliasing old?
        bool aliased = false;
        for (auto &p : S.var2val) if (p.first != VD && p.second == old) aliased = true;
        if (!aliased) report("own.leak", At, "overwrite:" + VD->getNameAsString(), "owned handle in '" + VD->getNameAsString() + "' overwritten without release/store");
      }
    }
    S.var2val[VD] = newVal;
  }

  const VarDecl* asTrackedVar(const Expr *E0) {
    const Expr *E = strip(E0);
    if (auto *DR = dyn_cast_or_null<DeclRefExpr>(E)) if (auto *VD = dyn_cast<VarDecl>(DR->getDecl())) if (isTracked(VD)) return VD;
    return nullptr;
  }

  // the handle whose child pointers a borrowing callee hands out: first by-value node_handle argument of getDownPtr / isSingletonNode
  int ownerOf(State &S, const CallExpr *CE, const FunctionDecl *Callee) {
    std::string n = Callee->getNameAsString();
    if (n != "getDownPtr" && n != "isSingletonNode") return -1;
    for (unsigned i = 0; i < CE->getNumArgs() && i < Callee->getNumParams(); i++) {
      bool ref;
      if (isNodeHandleType(Callee->getParamDecl(i)->getType(), ref) && !ref) return valueOf(S, CE->getArg(i));
    }
    return -1;
  }

  void handleCall(State &S, const CallExpr *CE) {
    const FunctionDecl *Callee = CE->getDirectCallee();
    bool retIsHandle = false; { bool r; retIsHandle = isNodeHandleType(CE->getType(), r); if (!retIsHandle && Callee) retIsHandle = isNodeHandleType(Callee->getReturnType(), r); }
    if (!Callee) { if (retIsHandle) S.tmp[CE] = S.fresh(U); return; }
    Summary Sum; getSummary(Callee, Sum);
    // argument offset: for CXXOperatorCallExpr on member operator, arg0 is object
    unsigned argOff = 0;
    if (isa<CXXOperatorCallExpr>(CE) && isa<CXXMethodDecl>(Callee)) argOff = 1;
    // unpacked node bookkeeping
    {
      std::string cq = Callee->getQualifiedNameAsString();
      // typestate of unpacked_node* locals obtained from a factory: live until exactly one of Recycle / createReducedNode /
      // modifyReducedNodeInPlace; any other call that receives the pointer makes it untracked (it may be kept or released there)
      bool releases = cq == "MEDDLY::unpacked_node::Recycle" || cq.find("createReducedNode") != std::string::npos || cq.find("modifyReducedNodeInPlace") != std::string::npos;
      for (unsigned ai = 0; ai < CE->getNumArgs(); ai++) if (const VarDecl *NV = nodeVarOf(CE->getArg(ai))) {
        auto lf = S.nodeLife.find(NV);
        if (lf == S.nodeLife.end() || lf->second == 0) continue;
        if (releases) {
          event(CE);
          if (lf->second == 2) report("own.unpacked", CE, "double:" + NV->getNameAsString(), "unpacked node '" + NV->getNameAsString() + "' is recycled/reduced a second time (it is already back on the free list: the list is corrupted)");
          lf->second = 2;
        } else if (!isa<UnaryOperator>(strip(CE->getArg(ai))) || true) {
          // passed by pointer or by reference to some other function
          const FunctionDecl *F = Callee;
          bool byConstRef = ai < F->getNumParams() + argOff && ai >= argOff && F->getParamDecl(ai - argOff)->getType()->isReferenceType() && F->getParamDecl(ai - argOff)->getType().getNonReferenceType().isConstQualified();
          bool isDeref = false; { const Expr *E = strip(CE->getArg(ai)); if (auto *UO = dyn_cast_or_null<UnaryOperator>(E)) isDeref = UO->getOpcode() == UO_Deref; }
          if (lf->second == 2 && (isDeref || byConstRef)) report("own.unpacked", CE, "use-after:" + NV->getNameAsString(), "unpacked node '" + NV->getNameAsString() + "' is used after it was recycled/reduced");
          if (!isDeref && !byConstRef && lf->second == 1) lf->second = 0;   // the pointer itself escapes
        }
      }
      if (auto *MC = dyn_cast<CXXMemberCallExpr>(CE)) if (const VarDecl *NV = nodeVarOf(MC->getImplicitObjectArgument())) {
        auto lf = S.nodeLife.find(NV);
        if (lf != S.nodeLife.end() && lf->second == 2) { event(CE); report("own.unpacked", CE, "use-after:" + NV->getNameAsString(), "unpacked node '" + NV->getNameAsString() + "' is used after it was recycled/reduced"); }
      }
      if (cq.find("createReducedNode") != std::string::npos || cq.find("modifyReducedNodeInPlace") != std::string::npos) {
        for (unsigned ai = 0; ai < CE->getNumArgs(); ai++) if (const VarDecl *NV = nodeVarOf(CE->getArg(ai))) {
          auto k = S.nodeKind.find(NV);
          if (k != S.nodeKind.end() && k->second == 3) { int v = S.nodeOrigin[NV]; Tok t = S.tok[v];
            if (t == B) report("own.borrowed-escapes", CE, "reduce(redundant-of)", "redundant node built from a borrowed handle is reduced (its slot 0 needs an owned reference)");
            else if (t == M) report("own.double-move", CE, "reduce(redundant-of)", "redundant node built from an already-moved handle is reduced");
            else if (t == O) S.tok[v] = M; }
          S.nodeKind[NV] = 0;
        }
      }
    }
    for (auto &p : Sum.params) {
      unsigned ai = p.first + argOff;
      if (ai >= CE->getNumArgs()) continue;
      const Expr *A = CE->getArg(ai);
      if (isa<CXXDefaultArgExpr>(A)) continue;
      switch (p.second) {
        case R_BORROW: case R_IGNORE: {
          int bv = valueOf(S, A);
          if (S.tok[bv] == D) { event(CE); report("own.use-after-release", CE, Callee->getNameAsString() + "(" + exprText(A) + ")", "handle `" + exprText(A) + "` was only borrowed from a node that has already been unlinked (the node and its children may have been reclaimed) and is now used by " + Callee->getNameAsString()); }
          break; }
        case R_CONSUME: consume(S, A, CE, Callee->getNameAsString()); break;
        case R_INOUT: {
          int v = valueOf(S, A); Tok t = S.tok[v];
          if (t == B) report("own.borrowed-escapes", CE, Callee->getNameAsString() + "(" + exprText(A) + ")", "borrowed handle passed as in-out owned to " + Callee->getNameAsString() + ": " + exprText(A));
          if (t == M) report("own.double-move", CE, Callee->getNameAsString() + "(" + exprText(A) + ")", "moved handle passed as in-out owned to " + Callee->getNameAsString() + ": " + exprText(A));
          if (t == O) S.tok[v] = M;
          if (const VarDecl *VD = asTrackedVar(A)) S.var2val[VD] = S.fresh(O);
          break; }
        case R_OUT_OWNED: {
          if (const VarDecl *VD = asTrackedVar(A)) overwriteVar(S, VD, S.fresh(O), CE);
          break; }
        case R_OUT_BORROWED: {
          if (const VarDecl *VD = asTrackedVar(A)) { int nv = S.fresh(B); overwriteVar(S, VD, nv, CE); int ow = ownerOf(S, CE, Callee); if (ow >= 0) S.from[nv] = ow; }
          break; }
        case R_OUT_TERMINAL: {
          if (const VarDecl *VD = asTrackedVar(A)) overwriteVar(S, VD, S.fresh(T), CE);
          break; }
        case R_TERMINAL_IN: break;
        case R_CONSUME_ZERO: {
          consume(S, A, CE, Callee->getNameAsString());
          if (const VarDecl *VD = asTrackedVar(A)) S.var2val[VD] = S.fresh(T);
          break; }
      }
    }
    if (retIsHandle) {
      switch (Sum.ret) {
        case RET_OWNED: S.tmp[CE] = S.fresh(O); break;
        case RET_BORROWED: { int nv = S.fresh(B); S.tmp[CE] = nv; int ow = ownerOf(S, CE, Callee); if (ow >= 0) S.from[nv] = ow; break; }
        case RET_TERMINAL: S.tmp[CE] = S.fresh(T); break;
        default: S.tmp[CE] = S.fresh(U); unknownRet.insert(Callee->getQualifiedNameAsString()); break;
      }
    }
  }

  void noteNodeLife(State &S, const VarDecl *NV, const Expr *Init, const Stmt *At) {
    // (re)definition of an unpacked_node* local: a live node that is overwritten is lost
    auto old = S.nodeLife.find(NV);
    if (old != S.nodeLife.end() && old->second == 1 && NV->isLocalVarDecl()) { event(At); report("own.unpacked", At, "leak:" + NV->getNameAsString(), "unpacked node in '" + NV->getNameAsString() + "' is overwritten while still live (never recycled or reduced: it stays on the forest's list and pins its children)"); }
    int life = 0;
    const Expr *E = strip(Init);
    if (auto *CE = dyn_cast_or_null<CallExpr>(E)) if (const FunctionDecl *C = CE->getDirectCallee()) {
      std::string q = C->getQualifiedNameAsString();
      if (q == "MEDDLY::unpacked_node::New" || q == "MEDDLY::unpacked_node::newFromNode" || q == "MEDDLY::unpacked_node::newRedundant" ||
          q == "MEDDLY::unpacked_node::newIdentity" || q == "MEDDLY::unpacked_node::newWritable") life = 1;
    }
    if (NV->isLocalVarDecl() && NV->getType()->isPointerType()) S.nodeLife[NV] = life;
    // aliasing another node variable: both become untracked
    if (const VarDecl *Other = nodeVarOf(Init)) { S.nodeLife[Other] = 0; S.nodeLife[NV] = 0; }
  }

  void noteNodeInit(State &S, const VarDecl *NV, const Expr *Init) {
    const Expr *E = strip(Init);
    if (auto *CO = dyn_cast_or_null<ConditionalOperator>(E)) { // take the weaker of the two arms
      State A = S, Bq = S; noteNodeInit(A, NV, CO->getTrueExpr()); noteNodeInit(Bq, NV, CO->getFalseExpr());
      int ka = A.nodeKind.count(NV) ? A.nodeKind[NV] : 0, kb = Bq.nodeKind.count(NV) ? Bq.nodeKind[NV] : 0;
      if (ka == kb && ka != 3) S.nodeKind[NV] = ka; else if ((ka == 1 || ka == 3) && (kb == 1 || kb == 3)) S.nodeKind[NV] = 1; else S.nodeKind[NV] = 0; return; }
    if (auto *CE = dyn_cast_or_null<CallExpr>(E)) if (const FunctionDecl *C = CE->getDirectCallee()) {
      std::string q = C->getQualifiedNameAsString();
      if (q.find("unpacked_node::newWritable") != std::string::npos) { S.nodeKind[NV] = 2; return; }
      if (q.find("unpacked_node::newRedundant") != std::string::npos || q.find("unpacked_node::newIdentity") != std::string::npos) {
        // find the handle argument
        for (unsigned i = 0; i < CE->getNumArgs() && i < C->getNumParams(); i++) { bool r; if (isNodeHandleType(C->getParamDecl(i)->getType(), r)) { S.nodeKind[NV] = 3; S.nodeOrigin[NV] = valueOf(S, CE->getArg(i)); return; } }
      }
      if (q.find("unpacked_node::New") != std::string::npos || q.find("unpacked_node::newFromNode") != std::string::npos) { S.nodeKind[NV] = 1; return; }
    }
    S.nodeKind[NV] = 0;
  }

  void handleStmt(State &S, const Stmt *St) {
    if (auto *CE = dyn_cast<CallExpr>(St)) { handleCall(S, CE); return; }
    if (auto *BO = dyn_cast<BinaryOperator>(St)) if (BO->getOpcode() == BO_Assign) {
      if (const VarDecl *NV = nodeVarOf(BO->getLHS())) { if (NV->getType()->isPointerType()) noteNodeLife(S, NV, BO->getRHS(), BO); noteNodeInit(S, NV, BO->getRHS()); return; }
      // the pointer is stored somewhere else (array slot, member): it escapes
      if (const VarDecl *RV = nodeVarOf(BO->getRHS())) if (BO->getRHS()->getType()->isPointerType()) S.nodeLife[RV] = 0;
      if (auto *DR = dyn_cast<DeclRefExpr>(strip(BO->getLHS()))) if (auto *VD = dyn_cast<VarDecl>(DR->getDecl())) if (VD->getType()->isBooleanType() && VD->isLocalVarDecl()) {
        if (auto *BL = dyn_cast<CXXBoolLiteralExpr>(strip(BO->getRHS()))) S.flags[VD] = BL->getValue() ? 1 : 0; else S.flags.erase(VD);
        return; }
    }
    if (auto *DS = dyn_cast<DeclStmt>(St)) for (auto *D : DS->decls()) if (auto *VD = dyn_cast<VarDecl>(D)) {
      if (VD->hasInit() && nodeVarOfDecl(VD)) { if (VD->getType()->isPointerType()) noteNodeLife(S, VD, VD->getInit(), St); noteNodeInit(S, VD, VD->getInit()); }
      if (VD->getType()->isBooleanType() && VD->isLocalVarDecl() && VD->hasInit()) if (auto *BL = dyn_cast<CXXBoolLiteralExpr>(strip(VD->getInit()))) S.flags[VD] = BL->getValue() ? 1 : 0;
    }
    if (auto *BO = dyn_cast<BinaryOperator>(St)) {
      if (BO->getOpcode() == BO_Assign) {
        if (const VarDecl *VD = asTrackedVar(BO->getLHS())) {
          int v = valueOf(S, BO->getRHS());
          overwriteVar(S, VD, v, BO);
        } else {
          bool r; if (isNodeHandleType(BO->getLHS()->getType(), r)) {
            // a child slot of the node being filled (this->_down[z] inside unpacked_node) owns its reference
            bool ownSlot = false;
            if (auto *AS = dyn_cast<ArraySubscriptExpr>(strip(BO->getLHS()))) if (auto *ME = dyn_cast<MemberExpr>(strip(AS->getBase())))
              if (isa<CXXThisExpr>(strip(ME->getBase())) && ME->getMemberDecl()->getNameAsString() == "_down") ownSlot = true;
            if (ownSlot) { consume(S, BO->getRHS(), BO, "_down[]="); }
            else {
              // store into untracked location (array elt, field): ownership escapes -> moved, no alarm
              int v = valueOf(S, BO->getRHS()); if (S.tok[v] == O) S.tok[v] = M;
            }
          }
        }
      }
      return;
    }
    if (auto *DS = dyn_cast<DeclStmt>(St)) {
      for (auto *D : DS->decls()) if (auto *VD = dyn_cast<VarDecl>(D)) if (isTracked(VD)) {
        if (VD->hasInit()) { int v = valueOf(S, VD->getInit()); S.var2val[VD] = v; }
        else S.var2val[VD] = S.fresh(U);
      }
      return;
    }
    if (auto *RS = dyn_cast<ReturnStmt>(St)) {
      if (RS->getRetValue()) if (const VarDecl *NV = nodeVarOf(RS->getRetValue())) S.nodeLife[NV] = 0;   // handed to the caller
      if (RS->getRetValue()) { bool r; if (isNodeHandleType(FD->getReturnType(), r)) {
        int v = valueOf(S, RS->getRetValue());
        if (retOwned) { Tok t = S.tok[v];
          if (t == B) report("own.borrowed-escapes", RS, "return", "borrowed handle returned as owned: " + exprText(RS->getRetValue()));
          if (t == M) report("own.double-move", RS, "return", "moved handle returned as owned: " + exprText(RS->getRetValue()));
          if (t == O) S.tok[v] = M; }
        else { if (S.tok[v] == O) S.tok[v] = M; }
      } }
      return;
    }
  }

  // refine state N knowing condition C evaluated to `truth`; returns false if infeasible
  bool refine(State &N, const Expr *C0, bool truth) {
    const Expr *C = strip(C0);
    while (auto *UO = dyn_cast_or_null<UnaryOperator>(C)) { if (UO->getOpcode() != UO_LNot) break; truth = !truth; C = strip(UO->getSubExpr()); }
    if (!C) return true;
    // the link/unlink discipline is analysed for forests that use reference counts (mark-and-sweep forests skip the counting)
    if (auto *ME = dyn_cast<MemberExpr>(C)) if (ME->getMemberDecl()->getNameAsString() == "useReferenceCounts") return truth;
    auto setT = [&](const Expr *X) { if (const VarDecl *VD = asTrackedVar(X)) { auto it = N.var2val.find(VD); if (it != N.var2val.end()) { if (N.tok[it->second] != M) N.tok[it->second] = T; } else N.var2val[VD] = N.fresh(T); } };
    auto isZeroLit = [&](const Expr *X) { const Expr *Y = strip(X); if (auto *IL = dyn_cast_or_null<IntegerLiteral>(Y)) return IL->getValue() == 0; if (auto *DR = dyn_cast_or_null<DeclRefExpr>(Y)) { std::string n = DR->getDecl()->getNameAsString(); return n == "OMEGA_INFINITY" || n == "OMEGA_ZERO"; } return false; };
    auto isTermConst = [&](const Expr *X) { const Expr *Y = strip(X); if (isa<IntegerLiteral>(Y)) return true; if (auto *UO = dyn_cast<UnaryOperator>(Y)) if (UO->getOpcode() == UO_Minus) return true; if (auto *DR = dyn_cast_or_null<DeclRefExpr>(Y)) { std::string n = DR->getDecl()->getNameAsString(); return n.rfind("OMEGA_", 0) == 0; } return false; };
    if (auto *DR = dyn_cast<DeclRefExpr>(C)) {
      if (auto *VD = dyn_cast<VarDecl>(DR->getDecl())) {
        if (isTracked(VD)) { if (!truth) setT(C); return true; }
        auto f = N.flags.find(VD); if (f != N.flags.end()) return (f->second == 1) == truth;
      }
      return true;
    }
    if (auto *BO = dyn_cast<BinaryOperator>(C)) {
      const Expr *L = BO->getLHS(), *R = BO->getRHS();
      switch (BO->getOpcode()) {
        case BO_EQ: if (truth) { if (isTermConst(L) && asTrackedVar(R)) setT(R); if (isTermConst(R) && asTrackedVar(L)) setT(L); } break;
        case BO_NE: if (!truth) { if (isTermConst(L) && asTrackedVar(R)) setT(R); if (isTermConst(R) && asTrackedVar(L)) setT(L); } break;
        case BO_LE: case BO_LT: if (truth && asTrackedVar(L) && isTermConst(R)) { // x <= 0, x < 1, x < 0
            Expr::EvalResult ER; if (R->EvaluateAsInt(ER, Ctx)) { long v = ER.Val.getInt().getExtValue(); if ((BO->getOpcode() == BO_LE && v <= 0) || (BO->getOpcode() == BO_LT && v <= 1)) setT(L); } } break;
        case BO_GT: case BO_GE: if (!truth && asTrackedVar(L) && isTermConst(R)) { Expr::EvalResult ER; if (R->EvaluateAsInt(ER, Ctx)) { long v = ER.Val.getInt().getExtValue(); if ((BO->getOpcode() == BO_GT && v <= 0) || (BO->getOpcode() == BO_GE && v <= 1)) setT(L); } } break;
        default: break;
      }
      (void)isZeroLit;
      return true;
    }
    if (auto *CE = dyn_cast<CallExpr>(C)) if (const FunctionDecl *F = CE->getDirectCallee()) {
      std::string n = F->getNameAsString();
      if (truth && (n == "isTerminalNode" || n == "isTransparentEdge" || n == "isUnreachable")) {
        for (unsigned i = 0; i < CE->getNumArgs() && i < F->getNumParams(); i++) { bool r; if (isNodeHandleType(F->getParamDecl(i)->getType(), r)) setT(CE->getArg(i)); }
      }
    }
    return true;
  }

  void checkExit(State &S, const Stmt *At) {
    event(At);
    // out params
    for (const ParmVarDecl *P : outParams) {
      auto it = S.var2val.find(P); if (it == S.var2val.end()) continue;
      Tok t = S.tok[it->second];
      if (t == B) report("own.borrowed-escapes", At, "exit:" + P->getNameAsString(), "out-parameter '" + P->getNameAsString() + "' holds a borrowed handle at exit");
      if (t == M) report("own.double-move", At, "exit:" + P->getNameAsString(), "out-parameter '" + P->getNameAsString() + "' holds an already-moved handle at exit");
      if (t == O) S.tok[it->second] = M; // handed to caller
    }
    for (auto &p : S.nodeLife) if (p.second == 1)
      report("own.unpacked", At, "leak:" + p.first->getNameAsString(), "unpacked node in '" + p.first->getNameAsString() + "' is neither recycled nor reduced on some normal path (it stays on the forest's list and pins its children)");
    std::set<int> seen;
    for (auto &p : S.var2val) {
      if (S.tok[p.second] == O && !seen.count(p.second)) {
        seen.insert(p.second);
        report("own.leak", At, "exit:" + p.first->getNameAsString(), "owned handle in '" + p.first->getNameAsString() + "' not released/stored at function exit");
      }
    }
  }

  void run() {
    if (!FD->hasBody()) return;
    // collect tracked vars
    struct Coll : RecursiveASTVisitor<Coll> { std::set<const VarDecl*> *out; bool VisitVarDecl(VarDecl *VD) { bool r; if (isNodeHandleType(VD->getType(), r) && (VD->isLocalVarDeclOrParm())) out->insert(VD); return true; } };
    Coll c; c.out = &tracked; c.TraverseDecl(const_cast<FunctionDecl*>(FD));
    nTracked = tracked.size();
    if (tracked.empty()) return;
    Summary Self; bool inTable = getSummary(FD, Self); (void)inTable;
    retOwned = (Self.ret == RET_OWNED);
    State Init;
    for (unsigned i = 0; i < FD->getNumParams(); i++) {
      const ParmVarDecl *P = FD->getParamDecl(i);
      if (!tracked.count(P)) continue;
      Role r = Self.params.count(i) ? Self.params[i] : R_BORROW;
      switch (r) {
        case R_BORROW: case R_IGNORE: Init.var2val[P] = Init.fresh(B); break;
        case R_CONSUME: Init.var2val[P] = Init.fresh(O); break;
        case R_INOUT: Init.var2val[P] = Init.fresh(O); outParams.push_back(P); break;
        case R_CONSUME_ZERO: Init.var2val[P] = Init.fresh(O); break;
        case R_TERMINAL_IN: Init.var2val[P] = Init.fresh(T); break;
        case R_OUT_TERMINAL: Init.var2val[P] = Init.fresh(U); break;
        case R_OUT_OWNED: Init.var2val[P] = Init.fresh(U); outParams.push_back(P); break;
        case R_OUT_BORROWED: Init.var2val[P] = Init.fresh(U); break;
      }
    }
    std::unique_ptr<CFG> cfg = buildCFG(Ctx, FD);
    if (!cfg) { giveUp = true; return; }
    std::map<const CFGBlock*, std::set<std::string>> seen;
    std::deque<std::pair<const CFGBlock*, State>> work;
    work.push_back({&cfg->getEntry(), Init});
    while (!work.empty()) {
      auto [Bk, S] = work.front(); work.pop_front();
      std::string k = S.key();
      if (!seen[Bk].insert(k).second) continue;
      if (++nStates > 200000) { giveUp = true; return; }
      bool thrown = false;
      for (const CFGElement &E : *Bk) {
        if (auto CS = E.getAs<CFGStmt>()) {
          const Stmt *St = CS->getStmt();
          if (isa<CXXThrowExpr>(St)) { thrown = true; break; }
          handleStmt(S, St);
        }
      }
      if (thrown || Bk->hasNoReturnElement()) continue;   // error paths are exempt (C06 excludes them; C16 owns them)
      if (Bk == &cfg->getExit()) { checkExit(S, FD->getBody()); continue; }
      // noreturn / throw terminators: successors of a block ending in throw lead to exit; handled by thrown flag
      const Expr *TC = effectiveCond(Bk);
      unsigned si = 0;
      for (auto SI = Bk->succ_begin(); SI != Bk->succ_end(); ++SI, ++si) {
        const CFGBlock *Succ = SI->getReachableBlock();
        if (!Succ) continue;
        State N = S;
        bool feasible = true;
        if (TC && Bk->succ_size() == 2) feasible = refine(N, TC, si == 0);
        N.tmp.clear();
        if (feasible) work.push_back({Succ, N});
      }
    }
  }

  ASTContext &Ctx; const FunctionDecl *FD; const SourceManager &SM;
  std::set<const VarDecl*> tracked;
  std::vector<const ParmVarDecl*> outParams;
  bool retOwned = false;
};

// slot-level primitives the summaries describe; their own bodies manipulate counts directly and are the trusted base
bool isTrusted(const std::string &q) {
  static const char *trusted[] = {"forest::linkNode", "forest::unlinkNode", "node_headers::linkNode", "node_headers::unlinkNode",
    "forest::createReducedNode", "forest::deleteNode", "forest::getDownPtr", "dd_edge::set", "dd_edge::set_and_link", "dd_edge::attach", "dd_edge::init", "dd_edge::xferNode",
    "forest::unlinkAllDown", "forest::linkAllDown", "forest::cacheNode", "forest::uncacheNode", "node_headers::cacheNode", "node_headers::uncacheNode", nullptr};
  for (int i = 0; trusted[i]; i++) if (endsWith(q, trusted[i])) return true;
  return false;
}

} // namespace

Value runOwn(ASTContext &Ctx) {
  const SourceManager &SM = Ctx.getSourceManager();
  Array fns;
  forEachFunction(Ctx, [&](const FunctionDecl *FD) {
    std::string q = qualName(FD);
    if (isTrusted(q)) return;
    FnAnalyzer A(Ctx, FD);
    A.run();
    if (A.nTracked == 0) return;
    Object f;
    f["q"] = q;
    f["inst"] = instName(Ctx, FD);
    f["sig"] = signatureOf(FD);
    f["file"] = relPath(SM, FD->getLocation());
    f["line"] = lineOf(SM, FD->getLocation());
    f["tracked"] = (int64_t)A.nTracked;
    f["states"] = (int64_t)A.nStates;
    f["events"] = (int64_t)A.nEvents;
    f["suppressed"] = (int64_t)A.nSuppressed;
    f["gave_up"] = A.giveUp;
    f["partial"] = A.partial;
    { Array ur; for (auto &u : A.unknownRet) ur.push_back(u); f["unknown_ret"] = std::move(ur); }
    Array ds;
    for (auto &d : A.diags) {
      Object o;
      o["rule"] = d.rule;
      o["msg"] = d.msg;
      o["sink"] = d.sink;
      o["line"] = (int64_t)d.line;
      ds.push_back(std::move(o));
    }
    f["diags"] = std::move(ds);
    fns.push_back(std::move(f));
  });
  Object top;
  top["functions"] = std::move(fns);
  return Value(std::move(top));
}

} // namespace msa
