#include "common.h"
namespace msa {
llvm::json::Value runOwn(ASTContext &Ctx) { return nullptr; }
}
