// msa — MEDDLY static analyser (libTooling).  Shared helpers.
// Everything here works on the type-checked AST: callees are resolved with
// getDirectCallee()/getMethodDecl(), types through typedef sugar, never text.
#ifndef MSA_COMMON_H
#define MSA_COMMON_H

#include "clang/AST/ASTConsumer.h"
#include "clang/AST/ASTContext.h"
#include "clang/AST/ExprCXX.h"
#include "clang/AST/ParentMapContext.h"
#include "clang/AST/RecursiveASTVisitor.h"
#include "clang/Analysis/CFG.h"
#include "clang/Frontend/CompilerInstance.h"
#include "clang/Frontend/FrontendAction.h"
#include "llvm/Support/JSON.h"
#include "llvm/Support/raw_ostream.h"
#include <deque>
#include <functional>
#include <map>
#include <set>
#include <sstream>
#include <string>
#include <vector>

namespace msa {

using namespace clang;

struct Options {
  std::string engine;
  std::string out;
  std::string onlyFn;     // substring filter on qualified names (debug / replay)
  std::string cfgFilter;  // file with one substring per line: functions whose CFG is exported
  std::string srcRoot;    // absolute path of the analysed source tree (…/src)
  bool verbose = false;
};
extern Options Opt;

// ---- source locations ----------------------------------------------------------------------
inline std::string fileOf(const SourceManager &SM, SourceLocation L) {
  L = SM.getExpansionLoc(L);
  return SM.getFilename(L).str();
}
inline unsigned lineOf(const SourceManager &SM, SourceLocation L) {
  return SM.getSpellingLineNumber(SM.getExpansionLoc(L));
}
// path relative to the source root ("" when outside it, e.g. system headers)
std::string relPath(const SourceManager &SM, SourceLocation L);
inline bool inRepo(const SourceManager &SM, SourceLocation L) { return !relPath(SM, L).empty(); }

// ---- expressions ------------------------------------------------------------------------------
const Expr *strip(const Expr *E);
std::string exprText(const ASTContext &Ctx, const Stmt *E);
// name with template arguments of the enclosing instantiation ("arith_compat<EdgeOp_plus<int>,…>::_compute")
std::string instName(const ASTContext &Ctx, const FunctionDecl *FD);
// qualified name without template arguments
inline std::string qualName(const NamedDecl *D) { return D->getQualifiedNameAsString(); }
// parameter type list, for telling overloads apart
std::string signatureOf(const FunctionDecl *FD);

inline bool nameIs(const NamedDecl *D, llvm::StringRef n) { return D && D->getIdentifier() && D->getName() == n; }

// ---- MEDDLY types -----------------------------------------------------------------------------
// true if QT is (a reference to) MEDDLY::node_handle, decided through typedef sugar
bool isNodeHandleType(QualType QT, bool &isRef);
inline bool isNodeHandleType(QualType QT) { bool r; return isNodeHandleType(QT, r); }
// record name of a pointer/reference/value type ("unpacked_node", "forest", …), "" if none
std::string recordNameOf(QualType QT);
bool derivesFrom(const CXXRecordDecl *RD, llvm::StringRef baseName);

// ---- CFG --------------------------------------------------------------------------------------
std::unique_ptr<CFG> buildCFG(ASTContext &Ctx, const FunctionDecl *FD);
// the atomic condition tested at the end of a two-successor block (short-circuit operators resolved)
const Expr *effectiveCond(const CFGBlock *B);

// ---- callee helpers ---------------------------------------------------------------------------
inline bool endsWith(const std::string &q, const std::string &suf) {
  return q.size() >= suf.size() && q.compare(q.size() - suf.size(), suf.size(), suf) == 0 &&
         (q.size() == suf.size() || q[q.size() - suf.size() - 1] == ':' || suf[0] == ':');
}
const FunctionDecl *calleeOf(const CallExpr *CE);

// first `error::XYZ` enumerator mentioned below a throw expression ("" if none)
std::string errorCodeOf(const Stmt *S);

// ---- engine entry points (each analyses one translation unit and returns a JSON value) ----------
llvm::json::Value runFacts(ASTContext &Ctx);
llvm::json::Value runOwn(ASTContext &Ctx);
llvm::json::Value runOrphan(ASTContext &Ctx);
llvm::json::Value runFtype(ASTContext &Ctx);
llvm::json::Value runCt(ASTContext &Ctx);

// visit every function definition of the unit that lives in the repository, including implicit
// template instantiations (each instantiation separately); dependent templates are skipped.
void forEachFunction(ASTContext &Ctx, std::function<void(const FunctionDecl *)> F);

} // namespace msa
#endif
