// msa — MEDDLY static analyser.  One libTooling binary, several engines:
//   msa -p <dir with compile_commands.json> --engine=<facts|own|orphan|ftype|ct> --out=<json> <unit.cc>
#include "common.h"
#include "clang/Tooling/CommonOptionsParser.h"
#include "clang/Tooling/Tooling.h"
#include "llvm/Support/CommandLine.h"
#include "llvm/Support/FileSystem.h"

using namespace clang;
using namespace clang::tooling;

static llvm::cl::OptionCategory Cat("msa");
static llvm::cl::opt<std::string> Engine("engine", llvm::cl::desc("facts|own|orphan|ftype|ct"), llvm::cl::init("facts"), llvm::cl::cat(Cat));
static llvm::cl::opt<std::string> Out("out", llvm::cl::desc("output JSON file (default stdout)"), llvm::cl::cat(Cat));
static llvm::cl::opt<std::string> OutDir("out-dir", llvm::cl::desc("write one <unit>.json per translation unit into this directory"), llvm::cl::cat(Cat));
static llvm::cl::opt<std::string> OnlyFn("fn", llvm::cl::desc("only functions whose qualified name contains this"), llvm::cl::cat(Cat));
static llvm::cl::opt<std::string> CfgFilter("cfg-filter", llvm::cl::desc("file listing name substrings of functions whose CFG is exported"), llvm::cl::cat(Cat));
static llvm::cl::opt<std::string> SrcRoot("src-root", llvm::cl::desc("absolute path of the analysed src directory"), llvm::cl::init("/repo/src"), llvm::cl::cat(Cat));
static llvm::cl::opt<bool> Verbose("v", llvm::cl::desc("verbose"), llvm::cl::cat(Cat));

namespace {
llvm::json::Array results;
bool parseFailed = false;

class Consumer : public ASTConsumer {
public:
  void HandleTranslationUnit(ASTContext &Ctx) override {
    if (Ctx.getDiagnostics().hasErrorOccurred()) { parseFailed = true; }
    const std::string &e = msa::Opt.engine;
    llvm::json::Value v = nullptr;
    if (e == "facts") v = msa::runFacts(Ctx);
    else if (e == "own") v = msa::runOwn(Ctx);
    else if (e == "orphan") v = msa::runOrphan(Ctx);
    else if (e == "ftype") v = msa::runFtype(Ctx);
    else if (e == "ct") v = msa::runCt(Ctx);
    else { llvm::errs() << "unknown engine " << e << "\n"; parseFailed = true; }
    if (!OutDir.empty()) {
      // one file per unit, written atomically (tmp + rename)
      const SourceManager &SM = Ctx.getSourceManager();
      std::string rel = msa::relPath(SM, SM.getLocForStartOfFile(SM.getMainFileID()));
      for (char &c : rel) if (c == '/') c = '_';
      // "a/b.cc" -> "a__b.cc": keep the double underscore convention of the driver
      std::string rel2 = msa::relPath(SM, SM.getLocForStartOfFile(SM.getMainFileID()));
      std::string name;
      for (char c : rel2) { if (c == '/') name += "__"; else name += c; }
      std::string fin = std::string(OutDir) + "/" + name + ".json", tmp = fin + ".tmp";
      llvm::json::Object top;
      top["engine"] = e;
      top["parse_ok"] = !Ctx.getDiagnostics().hasErrorOccurred();
      llvm::json::Array rs; rs.push_back(std::move(v));
      top["results"] = std::move(rs);
      std::error_code EC;
      {
        llvm::raw_fd_ostream OS(tmp, EC, llvm::sys::fs::OF_Text);
        if (EC) { llvm::errs() << "cannot write " << tmp << "\n"; parseFailed = true; return; }
        OS << llvm::json::Value(std::move(top)) << "\n";
      }
      llvm::sys::fs::rename(tmp, fin);
      return;
    }
    results.push_back(std::move(v));
  }
};
class Action : public ASTFrontendAction {
public:
  std::unique_ptr<ASTConsumer> CreateASTConsumer(CompilerInstance &, StringRef) override { return std::make_unique<Consumer>(); }
};
} // namespace

int main(int argc, const char **argv) {
  auto P = CommonOptionsParser::create(argc, argv, Cat);
  if (!P) { llvm::errs() << P.takeError(); return 2; }
  msa::Opt.engine = Engine;
  msa::Opt.out = Out;
  msa::Opt.onlyFn = OnlyFn;
  msa::Opt.cfgFilter = CfgFilter;
  msa::Opt.srcRoot = SrcRoot;
  msa::Opt.verbose = Verbose;
  ClangTool Tl(P->getCompilations(), P->getSourcePathList());
  int rc = Tl.run(newFrontendActionFactory<Action>().get());
  if (!OutDir.empty()) return (rc == 0 && !parseFailed) ? 0 : 2;
  llvm::json::Object top;
  top["engine"] = msa::Opt.engine;
  top["parse_ok"] = (rc == 0 && !parseFailed);
  llvm::json::Array units;
  for (auto &s : P->getSourcePathList()) units.push_back(s);
  top["units"] = std::move(units);
  top["results"] = std::move(results);
  std::error_code EC;
  if (msa::Opt.out.empty()) { llvm::outs() << llvm::json::Value(std::move(top)) << "\n"; }
  else {
    llvm::raw_fd_ostream OS(msa::Opt.out, EC, llvm::sys::fs::OF_Text);
    if (EC) { llvm::errs() << "cannot write " << msa::Opt.out << "\n"; return 2; }
    OS << llvm::json::Value(std::move(top)) << "\n";
  }
  return (rc == 0 && !parseFailed) ? 0 : 2;
}
