// ftype engine (DESIGN §2.2): forest-indexed typing of node handles.
// Every node_handle belongs to one forest.  The engine gives each handle variable a *forest symbol*
//   this.F   a forest* member of the enclosing class (arg1F, arg2F, resF, argF, …)
//   var.f    a forest* local / parameter
//   edge.e   "the forest edge e is attached to" (unknown until a check equates it with another symbol)
//   *        terminal handle (forest independent: OMEGA terminals / zero)
// and reports a handle typed S1 that is used where S2 is required and S1 ≢ S2.  Symbols are equated only by
// construction (same expression given twice to the base constructor), by a dominating `X == Y`, by
// `e.isAttachedTo(F)` / `e.getForest() == F` tests, by `dd_edge e(F)` / `e.attach(F)`, or by sameForest().
// Unknown symbols never alarm.  Path-sensitive over the CFG (disjunctive states), like the own engine.
#include "common.h"

namespace msa {
using llvm::json::Array;
using llvm::json::Object;
using llvm::json::Value;

namespace {

bool isRec(QualType QT, const char *name) {
  if (QT.isNull()) return false;
  if (QT->isPointerType() || QT->isReferenceType()) QT = QT->getPointeeType();
  if (QT.isNull()) return false;
  const CXXRecordDecl *RD = QT->getAsCXXRecordDecl();
  return RD && derivesFrom(RD, name);
}
bool isForestExpr(const Expr *E) { return E && E->getType()->isPointerType() && isRec(E->getType(), "forest"); }

typedef std::string Sym;
const Sym STAR = "*";

struct St {
  std::map<const VarDecl *, Sym> hv;     // handle variable -> symbol ("" unknown)
  std::map<const VarDecl *, Sym> nodes;  // unpacked_node* variable -> forest symbol
  std::map<Sym, Sym> rep;                // union-find of equated symbols
  int keyN = 0;                          // number of NODE slots of the compute-table key filled so far on this path
  Sym pendA, pendB;                      // two handles of these (not yet equated) forests were found equal on this path
  const Stmt *pendAt = nullptr;
  std::string key() const {
    std::ostringstream os;
    os << pendA << "|" << pendB << "|" << keyN << "|";
    for (auto &p : hv) os << (const void *)p.first << "=" << p.second << ";";
    for (auto &p : nodes) os << "n" << (const void *)p.first << "=" << p.second << ";";
    for (auto &p : rep) os << p.first << "~" << p.second << ";";
    return os.str();
  }
  Sym find(Sym s) const {
    for (int i = 0; i < 32; i++) { auto it = rep.find(s); if (it == rep.end() || it->second == s) return s; s = it->second; }
    return s;
  }
  void unite(const Sym &a, const Sym &b) {
    if (a.empty() || b.empty() || a == STAR || b == STAR) return;
    Sym ra = find(a), rb = find(b);
    if (ra == rb) return;
    if (ra < rb) rep[rb] = ra; else rep[ra] = rb;
  }
  bool same(const Sym &a, const Sym &b) const {
    if (a.empty() || b.empty() || a == STAR || b == STAR) return true;
    return find(a) == find(b);
  }
};

struct Diag { std::string rule, sink, msg; unsigned line; };

// per-class facts shared by all methods of that class (in this TU)
struct ClassFacts {
  std::vector<std::pair<Sym, Sym>> equal;                      // members equated by construction / constructor checks
  std::map<std::string, std::pair<Sym, Sym>> helperOps;        // member operation -> (argument forest symbol, result forest symbol)
  std::map<std::string, std::vector<Sym>> helperBin;           // member binary operation -> (arg1, arg2, res)
  // compute-table entry types declared in the constructor: forests of the NODE slots of the key / of the result, in slot order.
  // Alternatives (if/else setFixed) must agree, and all entry types of the class must agree, otherwise the lists are dropped.
  std::vector<std::vector<Sym>> ctKeyCands, ctResCands;
  std::vector<Sym> ctKeyN, ctResN;
  bool ctKnown = false;
  bool done = false;
};
std::map<const CXXRecordDecl *, ClassFacts> classFacts;
// parameter typings of private helpers, inferred from call sites inside the class: method -> param index -> symbol ("?" = conflicting)
std::map<const FunctionDecl *, std::map<unsigned, Sym>> inferred;

std::vector<std::string> baseForestFields(const CXXRecordDecl *RD) {
  // positional forest fields set by the root operation constructors
  if (derivesFrom(RD, "binary_operation")) return {"arg1F", "arg2F", "resF"};
  if (derivesFrom(RD, "unary_operation")) return {"argF", "resF"};
  return {};
}

struct An {
  ASTContext &Ctx;
  const FunctionDecl *FD;
  const SourceManager &SM;
  const CXXRecordDecl *Cls = nullptr;
  std::vector<Diag> diags;
  unsigned nStates = 0, nChecks = 0, nTyped = 0;
  bool giveUp = false;
  std::set<std::pair<const Stmt *, std::string>> reported;
  std::set<const Stmt *> counted;
  std::set<const VarDecl *> outParams;
  std::map<const VarDecl *, Sym> exitRole;
  std::map<const VarDecl *, int> vecKind;   // ct_vector local: 1 = key (sized by getKeySize), 2 = result (getResultSize)

  // `key[i]` / `res[i]` → the ct_vector variable indexed
  const VarDecl *ctVecOf(const Expr *E0) {
    const Expr *E = strip(E0);
    if (auto *OC = dyn_cast_or_null<CXXOperatorCallExpr>(E)) if (OC->getOperator() == OO_Subscript && OC->getNumArgs() == 2)
      if (auto *DR = dyn_cast<DeclRefExpr>(strip(OC->getArg(0)))) if (auto *VD = dyn_cast<VarDecl>(DR->getDecl())) if (vecKind.count(VD)) return VD;
    return nullptr;
  }

  An(ASTContext &C, const FunctionDecl *F) : Ctx(C), FD(F), SM(C.getSourceManager()) {
    if (auto *MD = dyn_cast<CXXMethodDecl>(F)) Cls = MD->getParent();
  }
  void report(const char *rule, const Stmt *At, const std::string &sink, const std::string &msg) {
    if (!reported.insert({At, sink}).second) return;
    diags.push_back({rule, sink, msg, lineOf(SM, At->getBeginLoc())});
  }
  void check(const Stmt *At) { if (counted.insert(At).second) nChecks++; }

  // ---- symbols of forest-valued expressions -------------------------------------------------
  Sym forestSym(const Expr *E0) {
    const Expr *E = strip(E0);
    if (!E) return "";
    if (auto *CC = dyn_cast<CXXConstCastExpr>(E)) return forestSym(CC->getSubExpr());
    if (isa<CXXThisExpr>(E)) return "this";
    if (auto *ME = dyn_cast<MemberExpr>(E)) {
      if (isa<CXXThisExpr>(strip(ME->getBase())) && isa<FieldDecl>(ME->getMemberDecl())) return "this." + ME->getMemberDecl()->getNameAsString();
      return "";
    }
    if (auto *DR = dyn_cast<DeclRefExpr>(E)) {
      if (auto *VD = dyn_cast<VarDecl>(DR->getDecl())) if (VD->isLocalVarDeclOrParm()) return "var." + VD->getNameAsString();
      return "";
    }
    if (auto *MC = dyn_cast<CXXMemberCallExpr>(E)) {
      const FunctionDecl *F = calleeOf(MC);
      if (!F) return "";
      std::string n = F->getNameAsString();
      const Expr *Obj = strip(MC->getImplicitObjectArgument());
      if (n == "getForest" && isRec(Obj->getType(), "dd_edge")) return edgeSym(Obj);
      if (n == "getParent" && isRec(Obj->getType(), "unpacked_node")) return "";
      if ((n == "getOp1F" || n == "getOp2F" || n == "getResF" || n == "getArgF") && isa<CXXThisExpr>(Obj)) {
        if (n == "getOp1F") return "this.arg1F";
        if (n == "getOp2F") return "this.arg2F";
        if (n == "getResF") return "this.resF";
        return "this.argF";
      }
    }
    return "";
  }
  Sym edgeSym(const Expr *E0) {
    const Expr *E = strip(E0);
    if (auto *DR = dyn_cast_or_null<DeclRefExpr>(E)) if (auto *VD = dyn_cast<VarDecl>(DR->getDecl())) return "edge." + VD->getNameAsString();
    if (auto *ME = dyn_cast_or_null<MemberExpr>(E)) if (isa<CXXThisExpr>(strip(ME->getBase()))) return "edge.this." + ME->getMemberDecl()->getNameAsString();
    if (isa_and_nonnull<CXXThisExpr>(E)) return "edge.this";
    return "";
  }
  const VarDecl *handleVar(const Expr *E0) {
    const Expr *E = strip(E0);
    if (auto *DR = dyn_cast_or_null<DeclRefExpr>(E)) if (auto *VD = dyn_cast<VarDecl>(DR->getDecl())) if (isNodeHandleType(VD->getType()) && VD->isLocalVarDeclOrParm()) return VD;
    return nullptr;
  }
  const VarDecl *nodeVar(const Expr *E0) {
    const Expr *E = strip(E0);
    if (auto *UO = dyn_cast_or_null<UnaryOperator>(E)) if (UO->getOpcode() == UO_Deref) E = strip(UO->getSubExpr());
    if (auto *DR = dyn_cast_or_null<DeclRefExpr>(E)) if (auto *VD = dyn_cast<VarDecl>(DR->getDecl())) if (isRec(VD->getType(), "unpacked_node")) return VD;
    return nullptr;
  }

  // symbol of a handle-valued expression in state S ("" unknown, "*" terminal)
  Sym symOf(St &S, const Expr *E0) {
    const Expr *E = strip(E0);
    if (!E) return "";
    if (isa<IntegerLiteral>(E)) return STAR;
    if (auto *UO = dyn_cast<UnaryOperator>(E)) if (UO->getOpcode() == UO_Minus && isa<IntegerLiteral>(strip(UO->getSubExpr()))) return STAR;
    if (auto *DR = dyn_cast<DeclRefExpr>(E)) {
      if (const VarDecl *VD = handleVar(E)) { auto it = S.hv.find(VD); return it == S.hv.end() ? "" : it->second; }
      if (DR->getDecl()->getNameAsString().rfind("OMEGA_", 0) == 0) return STAR;
      return "";
    }
    if (auto *CO = dyn_cast<ConditionalOperator>(E)) {
      Sym a = symOf(S, CO->getTrueExpr()), b = symOf(S, CO->getFalseExpr());
      if (a == b) return a;
      if (a == STAR) return b;
      if (b == STAR) return a;
      return S.same(a, b) ? a : "";
    }
    if (auto *MC = dyn_cast<CXXMemberCallExpr>(E)) {
      const FunctionDecl *F = calleeOf(MC);
      if (!F) return "";
      auto *MD = dyn_cast<CXXMethodDecl>(F);
      const Expr *Obj = MC->getImplicitObjectArgument();
      std::string n = F->getNameAsString();
      if (isRec(Obj->getType(), "unpacked_node") && n == "down") {
        if (const VarDecl *NV = nodeVar(Obj)) { auto it = S.nodes.find(NV); if (it != S.nodes.end()) return it->second; }
        return "";
      }
      if (isRec(Obj->getType(), "forest") && MD && !MD->isStatic() && isNodeHandleType(F->getReturnType())) return forestSym(Obj);
      if (isRec(Obj->getType(), "dd_edge") && n == "getNode") return edgeSym(Obj);
      if (isRec(Obj->getType(), "terminal") && (n == "getHandle" || n == "getIntegerHandle" || n == "getRealHandle")) return STAR;
      // res[i].getN(): a node of the forest the constructor declared for the result's NODE slot
      if (n == "getN" && Cls) if (const VarDecl *V = ctVecOf(Obj)) if (vecKind[V] == 2) {
        buildClassFacts(Cls);
        if (classFacts[Cls].ctResN.size() == 1) return classFacts[Cls].ctResN[0];
      }
    }
    return "";
  }

  void require(St &S, const Expr *Arg, const Sym &need, const Stmt *At, const std::string &what) {
    if (need.empty()) return;
    check(At);
    if (const VarDecl *VD = handleVar(Arg)) {
      auto it = S.hv.find(VD);
      if (it == S.hv.end() || it->second.empty()) { S.hv[VD] = need; nTyped++; return; }
      if (!S.same(it->second, need))
        report("ftype.mix", At, what + "(" + VD->getNameAsString() + ")", "handle '" + VD->getNameAsString() + "' belongs to " + it->second + " but is used with " + need + " in " + what);
      return;
    }
    Sym have = symOf(S, Arg);
    if (!have.empty() && !S.same(have, need))
      report("ftype.mix", At, what + "(" + exprText(Ctx, Arg) + ")", "expression `" + exprText(Ctx, Arg) + "` belongs to " + have + " but is used with " + need + " in " + what);
  }
  void define(St &S, const Expr *Target, const Sym &sym) {
    if (const VarDecl *VD = handleVar(Target)) { S.hv[VD] = sym; if (!sym.empty()) nTyped++; if (exitRole.count(VD)) effect(S, Target); }
  }
  // a result is produced / the function returns: an unresolved cross-forest handle equality was acted upon
  void effect(St &S, const Stmt *At) {
    if (S.pendA.empty()) return;
    if (!S.same(S.pendA, S.pendB))
      report("ftype.mix", S.pendAt ? S.pendAt : At, "eq(" + S.pendA + "," + S.pendB + ")",
             "handles of " + S.pendA + " and " + S.pendB + " are compared for equality and a result is produced on that path without establishing that the two forests are the same object");
    S.pendA.clear(); S.pendB.clear(); S.pendAt = nullptr;
  }

  // ---- class facts ------------------------------------------------------------------------------
  static Sym paramToField(const CXXConstructorDecl *CD, const Expr *E, const std::map<const ParmVarDecl *, Sym> &pm) {
    const Expr *X = strip(E);
    if (auto *DR = dyn_cast_or_null<DeclRefExpr>(X)) if (auto *PV = dyn_cast<ParmVarDecl>(DR->getDecl())) { auto it = pm.find(PV); if (it != pm.end()) return it->second; }
    if (auto *ME = dyn_cast_or_null<MemberExpr>(X)) if (isa<CXXThisExpr>(strip(ME->getBase()))) return "this." + ME->getMemberDecl()->getNameAsString();
    return "";
  }
  static void buildClassFacts(const CXXRecordDecl *RD) {
    ClassFacts &CF = classFacts[RD];
    if (CF.done) return;
    CF.done = true;
    if (!RD->hasDefinition()) return;
    std::vector<std::string> fields = baseForestFields(RD);
    for (const CXXConstructorDecl *CD0 : RD->ctors()) {
      const FunctionDecl *Def = nullptr;
      if (!CD0->hasBody(Def) || !Def) continue;
      const CXXConstructorDecl *CD = cast<CXXConstructorDecl>(Def);   // initialisers live on the definition
      // which constructor parameter feeds which positional forest field (through any chain of base constructors)
      std::map<const ParmVarDecl *, Sym> pm;
      std::function<void(const CXXConstructorDecl *, std::vector<const Expr *>)> walk = [&](const CXXConstructorDecl *C, std::vector<const Expr *> /*unused*/) {};
      (void)walk;
      for (const CXXCtorInitializer *I : CD->inits()) {
        if (!I->isBaseInitializer()) continue;
        auto *CE = dyn_cast<CXXConstructExpr>(strip(I->getInit()));
        if (!CE) { if (auto *EWC = dyn_cast_or_null<ExprWithCleanups>(I->getInit())) CE = dyn_cast<CXXConstructExpr>(strip(EWC->getSubExpr())); }
        if (!CE) continue;
        // forest-typed arguments in order
        std::vector<const Expr *> fargs;
        for (const Expr *A : CE->arguments()) if (isForestExpr(A)) fargs.push_back(A);
        const CXXRecordDecl *BD = CE->getConstructor()->getParent();
        bool root = nameIs(BD, "binary_operation") || nameIs(BD, "unary_operation");
        if (root) {
          for (unsigned i = 0; i < fargs.size() && i < fields.size(); i++) {
            if (auto *DR = dyn_cast<DeclRefExpr>(strip(fargs[i]))) if (auto *PV = dyn_cast<ParmVarDecl>(DR->getDecl())) {
              auto it = pm.find(PV);
              if (it != pm.end()) CF.equal.push_back({it->second, "this." + fields[i]});   // same parameter given twice
              else pm[PV] = "this." + fields[i];
            }
          }
        } else if (BD->hasDefinition()) {
          // derived from an intermediate class: inherit its equalities; parameter mapping by the intermediate's own mapping is not followed
          buildClassFacts(BD->getDefinition());
          for (auto &e : classFacts[BD->getDefinition()].equal) CF.equal.push_back(e);
          for (auto &h : classFacts[BD->getDefinition()].helperOps) CF.helperOps.insert(h);
        }
      }
      // constructor body: member = build(COPY, f1, f2) / COPY(f1, f2); if (X != Y) throw
      struct BV : RecursiveASTVisitor<BV> {
        ClassFacts *CF; const CXXConstructorDecl *CD; std::map<const ParmVarDecl *, Sym> *pm;
        bool VisitBinaryOperator(BinaryOperator *BO) {
          if (BO->getOpcode() != BO_Assign) return true;
          auto *ME = dyn_cast<MemberExpr>(strip(BO->getLHS()));
          if (!ME || !isa<CXXThisExpr>(strip(ME->getBase()))) return true;
          auto *CE = dyn_cast<CallExpr>(strip(BO->getRHS()));
          if (!CE) return true;
          const FunctionDecl *F = calleeOf(CE);
          if (!F) return true;
          std::vector<Sym> fs;
          for (const Expr *A : CE->arguments()) if (isForestExpr(A)) fs.push_back(paramToField(CD, A, *pm));
          if (isRec(BO->getLHS()->getType(), "unary_operation") && fs.size() == 2 && !fs[0].empty() && !fs[1].empty())
            CF->helperOps[ME->getMemberDecl()->getNameAsString()] = {fs[0], fs[1]};
          if (isRec(BO->getLHS()->getType(), "binary_operation") && fs.size() == 3 && !fs[0].empty() && !fs[1].empty() && !fs[2].empty())
            CF->helperBin[ME->getMemberDecl()->getNameAsString()] = fs;
          return true;
        }
        bool VisitIfStmt(IfStmt *IS) {
          // if (X != Y) throw …;  ⇒ X ≡ Y for every object of the class
          auto *BO = dyn_cast<BinaryOperator>(strip(IS->getCond()));
          if (!BO || BO->getOpcode() != BO_NE) return true;
          if (!isForestExpr(BO->getLHS()) || !isForestExpr(BO->getRHS())) return true;
          const Stmt *Th = IS->getThen();
          bool throws = false;
          if (Th) { struct TV : RecursiveASTVisitor<TV> { bool t = false; bool VisitCXXThrowExpr(CXXThrowExpr *) { t = true; return true; } } tv; tv.TraverseStmt(const_cast<Stmt *>(Th)); throws = tv.t; }
          if (!throws) return true;
          Sym a = paramToField(CD, BO->getLHS(), *pm), b = paramToField(CD, BO->getRHS(), *pm);
          if (!a.empty() && !b.empty()) CF->equal.push_back({a, b});
          return true;
        }
        // ct->setFixed('I', arg1, arg2) / appendFixed(arg1) / setResult(ev, res) …: forests of the NODE slots in order
        static const Expr *peel(const Expr *E) {
          for (int i = 0; i < 8 && E; i++) {
            E = strip(E);
            if (auto *CC = dyn_cast_or_null<CXXConstructExpr>(E)) { if (CC->getNumArgs() >= 1 && !isa<CXXDefaultArgExpr>(CC->getArg(0))) { E = CC->getArg(0); continue; } }
            break;
          }
          return E;
        }
        bool VisitCXXMemberCallExpr(CXXMemberCallExpr *MC) {
          const FunctionDecl *F = calleeOf(MC);
          if (!F || !F->getIdentifier()) return true;
          llvm::StringRef n = F->getName();
          bool key = n == "setFixed" || n == "appendFixed", res = n == "setResult" || n == "appendResult";
          if (!key && !res) return true;
          if (!isRec(MC->getImplicitObjectArgument()->getType(), "ct_entry_type")) return true;
          std::vector<Sym> ns;
          for (const Expr *A : MC->arguments()) {
            const Expr *P = peel(A);
            if (P && isForestExpr(P)) { Sym s = paramToField(CD, P, *pm); ns.push_back(s.empty() ? Sym("?") : s); }
          }
          auto &cands = key ? CF->ctKeyCands : CF->ctResCands;
          if (n == "setFixed" || n == "setResult" || cands.empty()) cands.push_back(ns);
          else for (auto &s : ns) cands.back().push_back(s);
          return true;
        }
      } bv;
      bv.CF = &CF; bv.CD = CD; bv.pm = &pm;
      bv.TraverseStmt(CD->getBody());
    }
    // all alternatives and all entry types of the class must name the same forests in the same slot order
    auto agree = [](std::vector<std::vector<Sym>> &c, std::vector<Sym> &out) {
      if (c.empty()) return false;
      for (auto &v : c) { if (v != c[0]) return false; for (auto &s : v) if (s == "?") return false; }
      out = c[0];
      return true;
    };
    bool k = agree(CF.ctKeyCands, CF.ctKeyN), r = agree(CF.ctResCands, CF.ctResN);
    CF.ctKnown = k && r;
    if (!k) CF.ctKeyN.clear();
    if (!r) CF.ctResN.clear();
  }

  // ---- entry typing -----------------------------------------------------------------------------
  void entry(St &S) {
    // forest/handle parameter groups: (forest* f, [edge_value], node_handle h) ⇒ h : var.f
    Sym lastForest;
    for (unsigned i = 0; i < FD->getNumParams(); i++) {
      const ParmVarDecl *P = FD->getParamDecl(i);
      if (P->getType()->isPointerType() && isRec(P->getType(), "forest")) { lastForest = "var." + P->getNameAsString(); continue; }
      if (isNodeHandleType(P->getType())) { if (!lastForest.empty()) { S.hv[P] = lastForest; nTyped++; } continue; }
      if (isRec(P->getType(), "edge_value")) continue;
      lastForest.clear();
    }
    if (!Cls) return;
    buildClassFacts(Cls);
    for (auto &e : classFacts[Cls].equal) S.unite(e.first, e.second);
    // the documented roles of the virtual compute(L, in, av, ap, [bv, bp,] cv, cp&)
    std::vector<std::string> fields = baseForestFields(Cls);
    if (!fields.empty() && FD->getNameAsString() == "compute") {
      std::vector<const ParmVarDecl *> in, out;
      for (unsigned i = 0; i < FD->getNumParams(); i++) {
        bool ref; const ParmVarDecl *P = FD->getParamDecl(i);
        if (!isNodeHandleType(P->getType(), ref)) continue;
        if (ref && !P->getType().getNonReferenceType().isConstQualified()) out.push_back(P); else in.push_back(P);
      }
      if (in.size() + 1 == fields.size() && out.size() == 1) {
        for (unsigned i = 0; i < in.size(); i++) { S.hv[in[i]] = "this." + fields[i]; nTyped++; }
        exitRole[out[0]] = "this." + fields.back();
        outParams.insert(out[0]);
      }
    }
    auto it = inferred.find(FD->getCanonicalDecl());
    if (it != inferred.end()) for (auto &p : it->second) if (p.second != "?" && p.first < FD->getNumParams()) {
      const ParmVarDecl *P = FD->getParamDecl(p.first);
      bool ref; isNodeHandleType(P->getType(), ref);
      if (ref && !P->getType().getNonReferenceType().isConstQualified()) { exitRole[P] = p.second; outParams.insert(P); }
      else if (!S.hv.count(P)) { S.hv[P] = p.second; nTyped++; }
    }
  }

  // ---- transfer ---------------------------------------------------------------------------------
  void noteNodeInit(St &S, const VarDecl *NV, const Expr *Init, const Stmt *At) {
    const Expr *E = strip(Init);
    if (auto *CO = dyn_cast_or_null<ConditionalOperator>(E)) {
      St A = S, B = S;
      noteNodeInit(A, NV, CO->getTrueExpr(), At);
      noteNodeInit(B, NV, CO->getFalseExpr(), At);
      Sym a = A.nodes.count(NV) ? A.nodes[NV] : "", b = B.nodes.count(NV) ? B.nodes[NV] : "";
      S.nodes[NV] = (a == b || S.same(a, b)) ? a : "";
      return;
    }
    if (auto *CE = dyn_cast_or_null<CallExpr>(E)) if (const FunctionDecl *C = calleeOf(CE)) {
      std::string q = qualName(C);
      if (q.rfind("MEDDLY::unpacked_node::", 0) == 0 && CE->getNumArgs() >= 1 && isForestExpr(CE->getArg(0))) {
        Sym s = forestSym(CE->getArg(0));
        S.nodes[NV] = s;
        for (unsigned i = 1; i < CE->getNumArgs() && i < C->getNumParams(); i++)
          if (isNodeHandleType(C->getParamDecl(i)->getType())) require(S, CE->getArg(i), s, At, C->getNameAsString());
        return;
      }
    }
    if (const VarDecl *Other = nodeVar(Init)) { auto it = S.nodes.find(Other); S.nodes[NV] = it == S.nodes.end() ? "" : it->second; return; }
    S.nodes[NV] = "";
  }

  void handleCall(St &S, const CallExpr *CE) {
    const FunctionDecl *C = calleeOf(CE);
    if (!C) return;
    std::string q = qualName(C), n = C->getNameAsString();
    unsigned off = (isa<CXXOperatorCallExpr>(CE) && isa<CXXMethodDecl>(C)) ? 1 : 0;
    auto *MC = dyn_cast<CXXMemberCallExpr>(CE);
    const CXXMethodDecl *MD = dyn_cast<CXXMethodDecl>(C);
    const Expr *Obj = MC ? MC->getImplicitObjectArgument() : nullptr;

    // SWAP(a, b) exchanges the symbols
    if (n == "SWAP" && CE->getNumArgs() == 2) {
      const VarDecl *A = handleVar(CE->getArg(0)), *B = handleVar(CE->getArg(1));
      if (A && B) { Sym a = S.hv.count(A) ? S.hv[A] : "", b = S.hv.count(B) ? S.hv[B] : ""; S.hv[A] = b; S.hv[B] = a; }
      return;
    }
    // compute-table items: key[i].setN(h) fills the next NODE slot of the key; res[i].setN(h) the NODE slot of the result
    if (Obj && q == "MEDDLY::ct_item::setN" && CE->getNumArgs() == 1 && Cls) {
      if (const VarDecl *V = ctVecOf(Obj)) {
        buildClassFacts(Cls);
        ClassFacts &CF = classFacts[Cls];
        if (vecKind[V] == 1) {
          int j = S.keyN++;
          if (!CF.ctKeyN.empty() && j < (int)CF.ctKeyN.size()) require(S, CE->getArg(0), CF.ctKeyN[j], CE, "key NODE slot #" + std::to_string(j + 1) + " (declared for " + CF.ctKeyN[j] + ")");
        } else if (CF.ctResN.size() == 1) {
          require(S, CE->getArg(0), CF.ctResN[0], CE, "result NODE slot (declared for " + CF.ctResN[0] + ")");
        }
      }
      return;
    }
    // forest methods
    if (Obj && MD && !MD->isStatic() && isRec(Obj->getType(), "forest") && !isRec(Obj->getType(), "unpacked_node")) {
      Sym s = forestSym(Obj);
      if (!s.empty()) {
        // unpacked node handed to the forest must be a node of that forest
        for (unsigned i = 0; i + off < CE->getNumArgs() && i < C->getNumParams(); i++) {
          const Expr *A = CE->getArg(i + off);
          bool ref;
          if (isNodeHandleType(C->getParamDecl(i)->getType(), ref)) {
            bool isOut = ref && !C->getParamDecl(i)->getType().getNonReferenceType().isConstQualified();
            if (isOut) { define(S, A, s); }
            else require(S, A, s, CE, s + "->" + n);
          } else if (const VarDecl *NV = nodeVar(A)) {
            if (n == "createReducedNode" || n == "modifyReducedNodeInPlace") {
              check(CE);
              auto it = S.nodes.find(NV);
              if (it != S.nodes.end() && !it->second.empty() && !S.same(it->second, s))
                report("ftype.mix", CE, s + "->" + n + "(" + NV->getNameAsString() + ")", "unpacked node '" + NV->getNameAsString() + "' was built for " + it->second + " but is reduced in " + s);
            }
          }
        }
      }
      return;
    }
    // unpacked_node methods
    if (Obj && isRec(Obj->getType(), "unpacked_node")) {
      const VarDecl *NV = nodeVar(Obj);
      Sym s = NV && S.nodes.count(NV) ? S.nodes[NV] : "";
      if (n == "initFromNode" || n == "initRedundant" || n == "initIdentity" || n == "setFull" || n == "setSparse" || n == "_initRedundant" || n == "_initIdentity") {
        for (unsigned i = 0; i < CE->getNumArgs() && i < C->getNumParams(); i++)
          if (isNodeHandleType(C->getParamDecl(i)->getType())) require(S, CE->getArg(i), s, CE, (NV ? NV->getNameAsString() : std::string("node")) + "->" + n);
      }
      return;
    }
    // static factories of unpacked_node used as statements (results are handled by noteNodeInit)
    // dd_edge methods
    if (Obj && isRec(Obj->getType(), "dd_edge")) {
      Sym es = edgeSym(Obj);
      if (n == "set" || n == "set_and_link") {
        for (unsigned i = 0; i < CE->getNumArgs() && i < C->getNumParams(); i++)
          if (isNodeHandleType(C->getParamDecl(i)->getType())) require(S, CE->getArg(i), es, CE, exprText(Ctx, Obj) + "." + n);
      } else if (n == "attach" && CE->getNumArgs() == 1) {
        Sym f = forestSym(CE->getArg(0));
        // re-attachment: forget old equalities of this edge (conservative: keep it simple, equate)
        if (!es.empty() && !f.empty()) S.unite(es, f);
      } else if (n == "xferNode" && CE->getNumArgs() == 1) {
        define(S, CE->getArg(0), es);
      }
      return;
    }
    // helper operations built in the constructor: member->compute(L, in, av, A, cv, C)
    if (Obj && MD && Cls && (n == "compute") && (isRec(Obj->getType(), "unary_operation") || isRec(Obj->getType(), "binary_operation"))) {
      buildClassFacts(Cls);
      std::vector<Sym> roles;
      if (auto *ME = dyn_cast<MemberExpr>(strip(Obj))) {
        std::string mn = ME->getMemberDecl()->getNameAsString();
        auto hu = classFacts[Cls].helperOps.find(mn);
        if (hu != classFacts[Cls].helperOps.end()) roles = {hu->second.first, hu->second.second};
        auto hb = classFacts[Cls].helperBin.find(mn);
        if (hb != classFacts[Cls].helperBin.end()) roles = hb->second;
      } else if (isa<CXXThisExpr>(strip(Obj))) {
        for (auto &f : baseForestFields(Cls)) roles.push_back("this." + f);
      }
      if (!roles.empty()) {
        unsigned k = 0;
        for (unsigned i = 0; i < CE->getNumArgs() && i < C->getNumParams(); i++) {
          bool ref;
          if (!isNodeHandleType(C->getParamDecl(i)->getType(), ref)) continue;
          bool isOut = ref && !C->getParamDecl(i)->getType().getNonReferenceType().isConstQualified();
          if (isOut) define(S, CE->getArg(i), roles.back());
          else { if (k + 1 < roles.size()) require(S, CE->getArg(i), roles[k], CE, exprText(Ctx, Obj) + "->compute[operand " + std::to_string(k + 1) + "]"); k++; }
        }
      }
      return;
    }
    // calls inside the class (private helpers, recursion): record / check parameter typings
    if (MD && Cls && MD->getParent()->getCanonicalDecl() == Cls->getCanonicalDecl() && (!Obj || isa<CXXThisExpr>(strip(Obj)))) {
      auto &tab = inferred[C->getCanonicalDecl()];
      bool self = C->getCanonicalDecl() == FD->getCanonicalDecl();
      for (unsigned i = 0; i + off < CE->getNumArgs() && i < C->getNumParams(); i++) {
        bool ref;
        if (!isNodeHandleType(C->getParamDecl(i)->getType(), ref)) continue;
        bool isOut = ref && !C->getParamDecl(i)->getType().getNonReferenceType().isConstQualified();
        const Expr *A = CE->getArg(i + off);
        Sym have = symOf(S, A);
        if (isOut) {
          // result: typed by the callee's own exit role when known
          auto it = tab.find(i);
          Sym role = (it != tab.end() && it->second != "?") ? it->second : "";
          if (self && exitRole.count(FD->getParamDecl(i))) role = exitRole[FD->getParamDecl(i)];
          if (!role.empty() && role.rfind("this.", 0) == 0) define(S, A, role); else if (const VarDecl *VD = handleVar(A)) {
            // unknown result forest: if the variable is our own out-parameter with a role, note that role for the callee
            if (exitRole.count(VD) && role.empty()) { if (!tab.count(i)) tab[i] = exitRole[VD]; else if (tab[i] != exitRole[VD]) tab[i] = "?"; }
            S.hv[VD] = role;
          }
          continue;
        }
        if (have == STAR) continue;
        if (have.rfind("this.", 0) == 0) {
          Sym r = S.find(have);
          (void)r;
          auto it = tab.find(i);
          if (it == tab.end()) tab[i] = have;
          else if (it->second != "?" && !S.same(it->second, have)) {
            if (self) { check(CE); report("ftype.mix", CE, n + "[arg " + std::to_string(i + 1) + "]", "recursive call passes a handle of " + have + " in the position of a handle of " + it->second); }
            else it->second = "?";
          }
        } else if (have.empty()) {
          // unknown symbol flowing into a typed helper parameter: learn it
          auto it = tab.find(i);
          if (it != tab.end() && it->second != "?") if (const VarDecl *VD = handleVar(A)) { S.hv[VD] = it->second; }
        }
      }
      return;
    }
    // policy-style static helpers: (forest* f, [ev], handle h) groups must pair up at the call
    {
      Sym lastForest;
      bool grouped = false;
      for (unsigned i = 0; i + off < CE->getNumArgs() && i < C->getNumParams(); i++) {
        QualType PT = C->getParamDecl(i)->getType();
        const Expr *A = CE->getArg(i + off);
        if (PT->isPointerType() && isRec(PT, "forest")) { lastForest = forestSym(A); grouped = true; continue; }
        bool ref;
        if (isNodeHandleType(PT, ref)) {
          if (grouped && !lastForest.empty()) {
            bool isOut = ref && !PT.getNonReferenceType().isConstQualified();
            if (isOut && (n == "apply" || n == "makeEqualResult" || n == "setUnreachable")) define(S, A, lastForest);
            else require(S, A, lastForest, CE, n + "[paired with " + lastForest + "]");
          }
          continue;
        }
        if (isRec(PT, "edge_value")) continue;
        lastForest.clear();
        grouped = false;
      }
    }
  }

  void stmt(St &S, const Stmt *X) {
    if (auto *CE = dyn_cast<CallExpr>(X)) { handleCall(S, CE); return; }
    if (auto *CC = dyn_cast<CXXConstructExpr>(X)) {
      // dd_edge e(F)
      (void)CC;
      return;
    }
    if (auto *DS = dyn_cast<DeclStmt>(X)) {
      for (auto *D : DS->decls()) if (auto *VD = dyn_cast<VarDecl>(D)) {
        if (isRec(VD->getType(), "unpacked_node") && VD->getType()->isPointerType()) { if (VD->hasInit()) noteNodeInit(S, VD, VD->getInit(), X); continue; }
        if (isNodeHandleType(VD->getType()) && !VD->getType()->isReferenceType()) { S.hv[VD] = VD->hasInit() ? symOf(S, VD->getInit()) : ""; if (!S.hv[VD].empty()) nTyped++; continue; }
        if (isRec(VD->getType(), "dd_edge") && !VD->getType()->isPointerType() && !VD->getType()->isReferenceType() && VD->hasInit()) {
          if (auto *CE = dyn_cast<CXXConstructExpr>(strip(VD->getInit()))) {
            if (CE->getNumArgs() >= 1 && isForestExpr(CE->getArg(0))) { Sym f = forestSym(CE->getArg(0)); if (!f.empty()) S.unite("edge." + VD->getNameAsString(), f); }
            else if (CE->getNumArgs() == 1 && isRec(CE->getArg(0)->getType(), "dd_edge")) { Sym o = edgeSym(CE->getArg(0)); if (!o.empty()) S.unite("edge." + VD->getNameAsString(), o); }
          }
        }
        if (VD->getType()->isPointerType() && isRec(VD->getType(), "forest") && VD->hasInit()) { Sym f = forestSym(VD->getInit()); if (!f.empty()) S.unite("var." + VD->getNameAsString(), f); }
      }
      return;
    }
    if (auto *BO = dyn_cast<BinaryOperator>(X)) {
      if (BO->getOpcode() != BO_Assign) return;
      if (const VarDecl *NV = nodeVar(BO->getLHS())) { if (NV->getType()->isPointerType()) noteNodeInit(S, NV, BO->getRHS(), X); return; }
      if (const VarDecl *HV = handleVar(BO->getLHS())) { S.hv[HV] = symOf(S, BO->getRHS()); if (!S.hv[HV].empty()) nTyped++; if (exitRole.count(HV)) effect(S, X); return; }
      return;
    }
  }

  // does the `&&` conjunction that contains atom At also contain a forest equality that equates symbols a and b?
  bool conjunctionEquates(const Expr *At, const Sym &a, const Sym &b, const St &S) {
    const Expr *Top = At;
    DynTypedNode N = DynTypedNode::create(*At);
    for (int depth = 0; depth < 16; depth++) {
      auto Ps = Ctx.getParents(N);
      if (Ps.empty()) break;
      const Expr *PE = Ps[0].get<Expr>();
      if (!PE) break;
      if (auto *BO = dyn_cast<BinaryOperator>(PE)) { if (BO->getOpcode() != BO_LAnd) break; Top = BO; }
      else if (!isa<ParenExpr>(PE) && !isa<ImplicitCastExpr>(PE)) break;
      N = Ps[0];
    }
    std::vector<const Expr *> stack{Top};
    while (!stack.empty()) {
      const Expr *E = strip(stack.back());
      stack.pop_back();
      auto *BO = dyn_cast_or_null<BinaryOperator>(E);
      if (!BO) continue;
      if (BO->getOpcode() == BO_LAnd) { stack.push_back(BO->getLHS()); stack.push_back(BO->getRHS()); continue; }
      if (BO->getOpcode() == BO_EQ && isForestExpr(BO->getLHS()) && isForestExpr(BO->getRHS())) {
        St T = S;
        T.unite(forestSym(BO->getLHS()), forestSym(BO->getRHS()));
        if (T.same(a, b)) return true;
      }
    }
    return false;
  }

  bool refine(St &N, const Expr *C0, bool truth) {
    const Expr *C = strip(C0);
    while (auto *UO = dyn_cast_or_null<UnaryOperator>(C)) { if (UO->getOpcode() != UO_LNot) break; truth = !truth; C = strip(UO->getSubExpr()); }
    if (!C) return true;
    auto star = [&](const Expr *X) { if (const VarDecl *VD = handleVar(X)) N.hv[VD] = STAR; };
    if (const VarDecl *VD = handleVar(C)) { if (!truth) N.hv[VD] = STAR; return true; }
    if (auto *BO = dyn_cast<BinaryOperator>(C)) {
      auto op = BO->getOpcode();
      const Expr *L = strip(BO->getLHS()), *R = strip(BO->getRHS());
      if (op == BO_EQ || op == BO_NE) {
        bool eq = (op == BO_EQ) == truth;
        if (isForestExpr(L) && isForestExpr(R)) {
          Sym a = forestSym(L), b = forestSym(R);
          if (eq) { if (!a.empty() && !b.empty()) N.unite(a, b); }
          else if (!N.pendA.empty()) { St T = N; T.unite(a, b); if (T.same(N.pendA, N.pendB)) { N.pendA.clear(); N.pendB.clear(); N.pendAt = nullptr; } }   // the guarded shortcut is not taken
          return true;
        }
        auto isTermConst = [&](const Expr *E) { if (isa<IntegerLiteral>(E)) return true; if (auto *U = dyn_cast<UnaryOperator>(E)) return U->getOpcode() == UO_Minus; if (auto *DR = dyn_cast<DeclRefExpr>(E)) return DR->getDecl()->getNameAsString().rfind("OMEGA_", 0) == 0; return false; };
        if (eq) { if (isTermConst(L) && handleVar(R)) star(R); if (isTermConst(R) && handleVar(L)) star(L); }
        // `A == B` taken as true for two handles of different forests: equal handle numbers mean nothing unless the
        // forests are the same object.  Remember it; an effect (result written, return) while it is unresolved is reported.
        if (eq && handleVar(L) && handleVar(R)) {
          Sym a = symOf(N, L), b = symOf(N, R);
          if (!a.empty() && !b.empty() && a != STAR && b != STAR) {
            check(BO);
            if (!N.same(a, b)) { N.pendA = a; N.pendB = b; N.pendAt = BO; }
          }
        }
        return true;
      }
      if ((op == BO_LE || op == BO_LT) && truth && handleVar(L)) { Expr::EvalResult ER; if (R->EvaluateAsInt(ER, Ctx)) { long v = ER.Val.getInt().getExtValue(); if ((op == BO_LE && v <= 0) || (op == BO_LT && v <= 1)) star(L); } return true; }
      if ((op == BO_GT || op == BO_GE) && !truth && handleVar(L)) { Expr::EvalResult ER; if (R->EvaluateAsInt(ER, Ctx)) { long v = ER.Val.getInt().getExtValue(); if ((op == BO_GT && v <= 0) || (op == BO_GE && v <= 1)) star(L); } return true; }
      return true;
    }
    if (auto *CE = dyn_cast<CallExpr>(C)) if (const FunctionDecl *F = calleeOf(CE)) {
      std::string n = F->getNameAsString();
      if (truth && (n == "isTerminalNode" || n == "isTransparentEdge" || n == "isUnreachable"))
        for (unsigned i = 0; i < CE->getNumArgs() && i < F->getNumParams(); i++) if (isNodeHandleType(F->getParamDecl(i)->getType())) star(CE->getArg(i));
      if (auto *MC = dyn_cast<CXXMemberCallExpr>(CE)) {
        const Expr *Obj = MC->getImplicitObjectArgument();
        if (truth && n == "isAttachedTo" && CE->getNumArgs() == 1 && isRec(Obj->getType(), "dd_edge")) { Sym e = edgeSym(Obj), f = forestSym(CE->getArg(0)); if (!e.empty() && !f.empty()) N.unite(e, f); }
        if (truth && n == "sameForest" && CE->getNumArgs() == 1 && isRec(Obj->getType(), "dd_edge")) { Sym a = edgeSym(Obj), b = edgeSym(CE->getArg(0)); if (!a.empty() && !b.empty()) N.unite(a, b); }
      }
    }
    return true;
  }

  void checkExit(St &S, const Stmt *At) {
    for (auto &p : exitRole) {
      auto it = S.hv.find(p.first);
      if (it == S.hv.end() || it->second.empty()) continue;
      check(At);
      if (!S.same(it->second, p.second))
        report("ftype.mix", At, "result:" + p.first->getNameAsString(), "result parameter '" + p.first->getNameAsString() + "' must be a node of " + p.second + " but holds a handle of " + it->second + " at exit");
    }
  }

  void run() {
    std::unique_ptr<CFG> cfg = buildCFG(Ctx, FD);
    if (!cfg) { giveUp = true; return; }
    {
      // which ct_vector locals are keys / results: by the size they are constructed with
      struct VV : RecursiveASTVisitor<VV> {
        std::map<const VarDecl *, int> *out;
        bool VisitVarDecl(VarDecl *VD) {
          if (!VD->hasInit() || !isRec(VD->getType(), "ct_vector")) return true;
          struct CV : RecursiveASTVisitor<CV> { int kind = 0; bool VisitCallExpr(CallExpr *CE) { if (const FunctionDecl *F = calleeOf(CE)) { if (nameIs(F, "getKeySize")) kind = 1; if (nameIs(F, "getResultSize")) kind = 2; } return true; } } cv;
          cv.TraverseStmt(VD->getInit());
          if (cv.kind) (*out)[VD] = cv.kind;
          return true;
        }
      } vv;
      vv.out = &vecKind;
      vv.TraverseStmt(FD->getBody());
    }
    St Init;
    entry(Init);
    std::map<const CFGBlock *, std::set<std::string>> seen;
    std::deque<std::pair<const CFGBlock *, St>> work;
    work.push_back({&cfg->getEntry(), Init});
    while (!work.empty()) {
      auto BS = work.front();
      work.pop_front();
      const CFGBlock *B = BS.first;
      St S = BS.second;
      if (!seen[B].insert(S.key()).second) continue;
      if (++nStates > 60000) { giveUp = true; return; }
      bool thrown = false;
      for (const CFGElement &E : *B) if (auto CS = E.getAs<CFGStmt>()) {
        const Stmt *X = CS->getStmt();
        if (isa<CXXThrowExpr>(X)) { thrown = true; break; }
        if (isa<ReturnStmt>(X)) effect(S, X);
        stmt(S, X);
      }
      if (thrown || B->hasNoReturnElement()) continue;
      if (B == &cfg->getExit()) { checkExit(S, FD->getBody()); continue; }
      const Expr *TC = effectiveCond(B);
      unsigned si = 0;
      for (auto SI = B->succ_begin(); SI != B->succ_end(); ++SI, ++si) {
        const CFGBlock *Su = SI->getReachableBlock();
        if (!Su) continue;
        St N = S;
        bool ok = true;
        if (TC && B->succ_size() == 2) ok = refine(N, TC, si == 0);
        if (ok) work.push_back({Su, N});
      }
    }
  }
};

} // namespace

Value runFtype(ASTContext &Ctx) {
  const SourceManager &SM = Ctx.getSourceManager();
  classFacts.clear();
  inferred.clear();
  std::vector<const FunctionDecl *> fns;
  forEachFunction(Ctx, [&](const FunctionDecl *FD) { fns.push_back(FD); });
  // rounds: entry points first (their calls teach the helpers' parameter roles), then everything again
  std::map<const FunctionDecl *, An *> last;
  std::vector<std::unique_ptr<An>> keep;
  for (int round = 0; round < 3; round++) {
    for (const FunctionDecl *FD : fns) {
      bool hasHandle = false;
      for (unsigned i = 0; i < FD->getNumParams(); i++) if (isNodeHandleType(FD->getParamDecl(i)->getType())) hasHandle = true;
      if (!hasHandle) {
        // still analyse: locals may carry handles (wrappers taking dd_edge arguments)
      }
      auto A = std::make_unique<An>(Ctx, FD);
      A->run();
      last[FD] = A.get();
      keep.push_back(std::move(A));
    }
  }
  Array out;
  for (const FunctionDecl *FD : fns) {
    An *A = last[FD];
    if (!A || (A->nChecks == 0 && A->diags.empty())) continue;
    Object f;
    f["q"] = qualName(FD);
    f["inst"] = instName(Ctx, FD);
    f["sig"] = signatureOf(FD);
    f["file"] = relPath(SM, FD->getLocation());
    f["line"] = lineOf(SM, FD->getLocation());
    f["checks"] = (int64_t)A->nChecks;
    f["states"] = (int64_t)A->nStates;
    f["gave_up"] = A->giveUp;
    Array ds;
    for (auto &d : A->diags) {
      Object o;
      o["rule"] = d.rule; o["sink"] = d.sink; o["msg"] = d.msg; o["line"] = (int64_t)d.line;
      ds.push_back(std::move(o));
    }
    f["diags"] = std::move(ds);
    out.push_back(std::move(f));
  }
  Object top;
  top["functions"] = std::move(out);
  return Value(std::move(top));
}

} // namespace msa
