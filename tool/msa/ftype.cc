#include "common.h"
namespace msa {
llvm::json::Value runFtype(ASTContext &Ctx) { return nullptr; }
}
