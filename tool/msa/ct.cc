#include "common.h"
namespace msa {
llvm::json::Value runCt(ASTContext &Ctx) { return nullptr; }
}
