#include "common.h"
#include "llvm/ADT/SmallString.h"
#include "llvm/Support/Path.h"

namespace msa {

Options Opt;

std::string relPath(const SourceManager &SM, SourceLocation L) {
  std::string f = fileOf(SM, L);
  if (f.empty()) return "";
  {
    llvm::SmallString<256> P(f);
    llvm::sys::path::remove_dots(P, /*remove_dot_dot=*/true);
    f = P.str().str();
  }
  // normalise "./x", "../src/x" → absolute when possible
  if (f[0] != '/') {
    // relative to the compile directory = source root
    std::string g = f;
    while (g.rfind("./", 0) == 0) g = g.substr(2);
    if (g.rfind("../", 0) == 0) return ""; // outside src (config.h)
    return g;
  }
  const std::string &root = Opt.srcRoot;
  if (!root.empty() && f.compare(0, root.size(), root) == 0 && f.size() > root.size() && f[root.size()] == '/') {
    std::string g = f.substr(root.size() + 1);
    while (g.rfind("./", 0) == 0) g = g.substr(2);
    return g;
  }
  return "";
}

const Expr *strip(const Expr *E) {
  while (E) {
    E = E->IgnoreParenImpCasts();
    if (auto *CE = dyn_cast<CXXFunctionalCastExpr>(E)) { E = CE->getSubExpr(); continue; }
    if (auto *CE = dyn_cast<CStyleCastExpr>(E)) { E = CE->getSubExpr(); continue; }
    if (auto *CE = dyn_cast<CXXStaticCastExpr>(E)) { E = CE->getSubExpr(); continue; }
    if (auto *MT = dyn_cast<MaterializeTemporaryExpr>(E)) { E = MT->getSubExpr(); continue; }
    if (auto *BT = dyn_cast<CXXBindTemporaryExpr>(E)) { E = BT->getSubExpr(); continue; }
    if (auto *EC = dyn_cast<ExprWithCleanups>(E)) { E = EC->getSubExpr(); continue; }
    if (auto *CC = dyn_cast<CXXConstructExpr>(E)) {
      if (CC->getNumArgs() == 1 && CC->getConstructor()->isCopyOrMoveConstructor()) { E = CC->getArg(0); continue; }
    }
    break;
  }
  return E;
}

std::string exprText(const ASTContext &Ctx, const Stmt *E) {
  if (!E) return "";
  std::string s;
  llvm::raw_string_ostream os(s);
  E->printPretty(os, nullptr, Ctx.getPrintingPolicy());
  os.flush();
  // single line
  for (char &c : s) if (c == '\n' || c == '\t') c = ' ';
  if (s.size() > 240) s = s.substr(0, 237) + "...";
  return s;
}

std::string instName(const ASTContext &Ctx, const FunctionDecl *FD) {
  std::string full;
  llvm::raw_string_ostream os(full);
  FD->getNameForDiagnostic(os, Ctx.getPrintingPolicy(), true);
  os.flush();
  return full;
}

std::string signatureOf(const FunctionDecl *FD) {
  std::string s = "(";
  for (unsigned i = 0; i < FD->getNumParams(); i++) {
    if (i) s += ",";
    s += FD->getParamDecl(i)->getType().getAsString();
  }
  s += ")";
  if (auto *MD = dyn_cast<CXXMethodDecl>(FD)) if (MD->isConst()) s += " const";
  return s;
}

bool isNodeHandleType(QualType QT, bool &isRef) {
  isRef = false;
  if (QT.isNull()) return false;
  if (const auto *RT = QT->getAs<ReferenceType>()) { isRef = true; QT = RT->getPointeeType(); }
  QualType Cur = QT;
  for (int i = 0; i < 10; i++) {
    const Type *T = Cur.getTypePtr();
    if (const auto *TT = dyn_cast<TypedefType>(T)) {
      if (TT->getDecl()->getName() == "node_handle") return true;
      Cur = TT->getDecl()->getUnderlyingType();
      continue;
    }
    if (const auto *ET = dyn_cast<ElaboratedType>(T)) { Cur = ET->getNamedType(); continue; }
    if (const auto *ST = dyn_cast<SubstTemplateTypeParmType>(T)) { Cur = ST->getReplacementType(); continue; }
    if (const auto *PT = dyn_cast<ParenType>(T)) { Cur = PT->getInnerType(); continue; }
    if (const auto *DT = dyn_cast<DecayedType>(T)) { Cur = DT->getOriginalType(); continue; }
    break;
  }
  return false;
}

std::string recordNameOf(QualType QT) {
  if (QT.isNull()) return "";
  if (QT->isPointerType() || QT->isReferenceType()) QT = QT->getPointeeType();
  if (QT.isNull()) return "";
  if (const CXXRecordDecl *RD = QT->getAsCXXRecordDecl()) if (RD->getIdentifier()) return RD->getName().str();
  return "";
}

bool derivesFrom(const CXXRecordDecl *RD, llvm::StringRef baseName) {
  if (!RD) return false;
  if (!RD->hasDefinition()) return RD->getIdentifier() && RD->getName() == baseName;
  RD = RD->getDefinition();
  if (RD->getIdentifier() && RD->getName() == baseName) return true;
  for (const auto &B : RD->bases()) {
    const CXXRecordDecl *BD = B.getType()->getAsCXXRecordDecl();
    if (BD && derivesFrom(BD, baseName)) return true;
  }
  return false;
}

std::unique_ptr<CFG> buildCFG(ASTContext &Ctx, const FunctionDecl *FD) {
  CFG::BuildOptions BO;
  BO.setAllAlwaysAdd();
  BO.AddInitializers = true;
  BO.AddImplicitDtors = false;
  BO.AddEHEdges = false;
  return CFG::buildCFG(FD, FD->getBody(), &Ctx, BO);
}

const Expr *effectiveCond(const CFGBlock *B) {
  const Stmt *TC = B->getTerminatorCondition();
  const Expr *C = dyn_cast_or_null<Expr>(TC);
  if (!C) return nullptr;
  const Stmt *Term = B->getTerminatorStmt();
  for (int i = 0; i < 16; i++) {
    const Expr *S = C->IgnoreParens();
    auto *BO = dyn_cast<BinaryOperator>(S);
    if (!BO || !BO->isLogicalOp()) break;
    if (Term == BO) { C = BO->getLHS(); continue; } // block tests the left operand (and recursively its right-most leaf)
    C = BO->getRHS();
  }
  return C;
}

const FunctionDecl *calleeOf(const CallExpr *CE) {
  if (const FunctionDecl *FD = CE->getDirectCallee()) return FD;
  if (auto *MC = dyn_cast<CXXMemberCallExpr>(CE)) return MC->getMethodDecl();
  return nullptr;
}

std::string errorCodeOf(const Stmt *S) {
  struct F : RecursiveASTVisitor<F> {
    std::string code;
    bool VisitDeclRefExpr(DeclRefExpr *DR) {
      if (auto *EC = dyn_cast<EnumConstantDecl>(DR->getDecl())) {
        if (auto *ED = dyn_cast<EnumDecl>(EC->getDeclContext())) {
          (void)ED;
          std::string q = EC->getQualifiedNameAsString();
          if (q.find("error::") != std::string::npos && code.empty()) code = EC->getNameAsString();
        }
      }
      return true;
    }
  } f;
  f.TraverseStmt(const_cast<Stmt *>(S));
  return f.code;
}

void forEachFunction(ASTContext &Ctx, std::function<void(const FunctionDecl *)> Fn) {
  struct V : RecursiveASTVisitor<V> {
    ASTContext *Ctx;
    std::function<void(const FunctionDecl *)> *Fn;
    std::set<const FunctionDecl *> seen;
    bool shouldVisitTemplateInstantiations() const { return true; }
    bool shouldVisitImplicitCode() const { return false; }
    bool VisitFunctionDecl(FunctionDecl *FD) {
      if (!FD->doesThisDeclarationHaveABody()) return true;
      if (FD->isDependentContext()) return true;
      const SourceManager &SM = Ctx->getSourceManager();
      if (!inRepo(SM, FD->getLocation())) return true;
      if (!Opt.onlyFn.empty() && qualName(FD).find(Opt.onlyFn) == std::string::npos) return true;
      if (!seen.insert(FD).second) return true;
      (*Fn)(FD);
      return true;
    }
  } v;
  v.Ctx = &Ctx;
  v.Fn = &Fn;
  v.TraverseDecl(Ctx.getTranslationUnitDecl());
}

} // namespace msa
