#!/usr/bin/env python3
"""add_seed.py <id> <property> <breaks> <needs> [checked props...] — file a confirmed sub-agent seed under /verif/seeded/<id>/"""
import json, os, shutil, sys
sid, prop, breaks, needs = sys.argv[1:5]
checked = sys.argv[5:] or [prop]
src = "/tmp/wt/seeds/" + sid
dst = "/verif/seeded/" + sid
os.makedirs(dst, exist_ok=True)
for f in ("patch.diff", "demo.cc", "README.md", "confirm.txt"):
    if os.path.exists(os.path.join(src, f)):
        shutil.copy2(os.path.join(src, f), dst)
conf = open(os.path.join(dst, "confirm.txt")).read() if os.path.exists(os.path.join(dst, "confirm.txt")) else ""
meta = {"id": sid, "property": prop, "source": "independent sub-agent, scratch worktree, given only the property text",
        "breaks": breaks, "needs_to_manifest": needs,
        "confirmed": "scripts/confirm_seed.sh in a fresh scratch worktree: " + " ".join(l.strip() for l in conf.splitlines() if l.startswith(("demo_on", "builds", "# TOTAL", "patch_applies"))),
        "checked_with": "scripts/run_seed.sh %s %s" % (sid, " ".join(checked))}
json.dump(meta, open(os.path.join(dst, "meta.json"), "w"), indent=1)
print("filed", dst)
