#!/bin/bash
# usage: run_seed.sh <id> [property ...]   — apply /verif/seeded/<id>/patch.diff to /repo, run the checks of the
# given properties (default: the one in meta.json) without touching evidence, then undo the patch straight away.
ID="$1"; shift
SD=/verif/seeded/$ID
PROPS="$@"
[ -n "$PROPS" ] || PROPS=$(python3 -c "import json;print(json.load(open('$SD/meta.json'))['property'])")
[ -z "$(git -C /repo status --porcelain --untracked-files=no)" ] || { echo "/repo has uncommitted changes; refusing"; exit 2; }
git -C /repo apply "$SD/patch.diff" || { echo "patch does not apply"; exit 2; }
trap 'git -C /repo checkout -- . ' EXIT
for p in $PROPS; do
  echo "### $ID against $p"
  MSA_NO_EVIDENCE=1 /verif/check $p | grep -v "^      path" | grep -E "VIOLATION|FAILED|^  src/|KNOWN|BROKEN|^property" | cut -c1-260 | head -20
done
