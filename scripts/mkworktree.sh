#!/bin/sh
# usage: mkworktree.sh <dir>   — scratch git worktree of /repo at HEAD, pre-populated with /repo's
# (git-ignored) autotools output and objects so `make` there is incremental.  Remove with:
#   git -C /repo worktree remove --force <dir>
set -e
d="$1"
[ -n "$d" ] || { echo "usage: $0 <dir>"; exit 2; }
git -C /repo worktree add --detach "$d" HEAD >/dev/null
rsync -a --exclude .git /repo/ "$d"/
# generated Makefiles embed /repo as abs_top_srcdir etc.: point them at the copy
grep -rlI --include=Makefile --include=config.status --include=libtool --include='*.la' --include='*.lai' -e '/repo' "$d" 2>/dev/null | xargs -r sed -i "s#/repo#$d#g"
echo "$d ready"
