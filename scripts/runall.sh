#!/bin/bash
# run every claimed check once (quick tier) and print one line per property
cd /verif
for p in $(python3 -c "import sys; sys.path.insert(0,'lib'); import properties; print(' '.join(sorted(properties.PROPS)))"); do
  out=$(./check $p ${1:+--tier $1} 2>&1); rc=$?
  echo "$p exit=$rc $(echo "$out" | head -1 | sed 's/^property [A-Z0-9]* ([^)]*) //' | cut -c1-110) $(echo "$out" | grep -c KNOWN-FINDING) known"
done
