#!/usr/bin/env python3
"""Self-test bank runner: selftest.py [id-substring …]   (see lib/selftest_bank.py)"""
import os
import sys

sys.path.insert(0, os.path.join(os.path.dirname(os.path.abspath(__file__)), "..", "lib"))
import selftest_bank  # noqa: E402


def main():
    bank = selftest_bank.load(selectors=sys.argv[1:])
    bad = 0
    for m, (status, detail) in selftest_bank.run_bank(bank, jobs=4):
        print("%-8s %-40s %s %s" % (status, m["id"], m["property"], ("expect [%s]" % m["expect_rule"]) if m["kind"] == "mutant" else ""))
        if status not in ("caught", "silent"):
            bad += 1
            print("      " + detail[:400])
    print("%d variant(s), %d not as expected" % (len(bank), bad))
    return 1 if bad else 0


if __name__ == "__main__":
    sys.exit(main())
