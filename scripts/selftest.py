#!/usr/bin/env python3
"""Self-test bank (DESIGN §2.11): every mutant must make the named check report a VIOLATION that
names the expected rule; every refactor must leave it silent.  Each variant is a string replacement
applied to a scratch copy of /repo/src (outside /repo and /verif), analysed — never built or run —
and removed afterwards.   usage: selftest.py [id-substring …]"""
import json, os, shutil, subprocess, sys, tempfile

VERIF = os.path.dirname(os.path.dirname(os.path.abspath(__file__)))
REPO = "/repo"


def make_copy(dst):
    os.makedirs(dst)
    subprocess.run(["rsync", "-a", "--exclude", "*.o", "--exclude", "*.lo", "--exclude", ".libs", "--exclude", ".deps", "--exclude", "*.la",
                    REPO + "/src", dst + "/"], check=True)
    for f in ("config.h",):
        if os.path.exists(os.path.join(REPO, f)):
            shutil.copy2(os.path.join(REPO, f), dst)


def apply(m, root):
    p = os.path.join(root, "src", m["file"])
    s = open(p).read()
    n = s.count(m["old"])
    if m.get("count") == "any":
        if n == 0:
            return "pattern not found"
        s = s.replace(m["old"], m["new"])
    elif "occurrence" in m:
        if n < m["occurrence"]:
            return "pattern occurs %d times, need occurrence %d" % (n, m["occurrence"])
        idx = -1
        for _ in range(m["occurrence"]):
            idx = s.index(m["old"], idx + 1)
        s = s[:idx] + m["new"] + s[idx + len(m["old"]):]
    else:
        if n != m["count"]:
            return "pattern occurs %d times, expected %d" % (n, m["count"])
        s = s.replace(m["old"], m["new"])
    open(p, "w").write(s)
    return None


def main():
    sel = sys.argv[1:]
    bank = json.load(open(os.path.join(VERIF, "selftest", "mutants.json")))
    bank = [m for m in bank if not sel or any(x in m["id"] for x in sel)]
    tmp = tempfile.mkdtemp(prefix="msa_selftest_")
    bad = 0
    try:
        for m in bank:
            root = os.path.join(tmp, m["id"])
            make_copy(root)
            err = apply(m, root)
            if err:
                print("STALE   %-36s %s" % (m["id"], err)); bad += 1
                shutil.rmtree(root); continue
            env = dict(os.environ, MSA_REPO=root, MSA_NO_EVIDENCE="1")
            r = subprocess.run([os.path.join(VERIF, "check"), m["property"], "--tier", "quick"], capture_output=True, text=True, env=env)
            out = r.stdout
            if m["kind"] == "mutant":
                ok = r.returncode == 1 and "VIOLATION property=%s" % m["property"] in out and ("[%s" % m["expect_rule"]) in out
                print("%s %-36s %s exit=%d expect [%s]" % ("caught " if ok else "MISSED ", m["id"], m["property"], r.returncode, m["expect_rule"]))
            else:
                ok = r.returncode == 0 and "VIOLATION" not in out
                print("%s %-36s %s exit=%d" % ("silent " if ok else "ALARMED", m["id"], m["property"], r.returncode))
            if not ok:
                bad += 1
                print("\n".join("      " + l[:220] for l in out.splitlines()[-8:]))
            shutil.rmtree(root)
    finally:
        shutil.rmtree(tmp, ignore_errors=True)
    print("%d variant(s), %d not as expected" % (len(bank), bad))
    return 1 if bad else 0


if __name__ == "__main__":
    sys.exit(main())
