#!/bin/bash
# usage: confirm_seed.sh <seed-dir with patch.diff + demo.cc> <id>
# Confirms a sub-agent's seeded change in a fresh scratch worktree of /repo's HEAD:
#   demo passes on the unchanged library; with the patch the tree builds, the whole suite passes, demo fails.
# Writes <seed-dir>/confirm.txt.  The worktree and its build output are removed afterwards.
set -u
SD="$1"; ID="$2"; WT=/tmp/wt/confirm_$ID
OUT="$SD/confirm.txt"; : > "$OUT"
/verif/scripts/mkworktree.sh "$WT" >/dev/null 2>&1 || { echo "worktree failed" >> "$OUT"; exit 2; }
cd "$WT"
build_demo() { g++ -std=gnu++17 -I"$WT/src" -I"$WT" "$SD/demo.cc" "$WT/src/.libs/libmeddly.a" -lgmp -o "$WT/demo_bin" 2>>"$OUT"; }
(make -j8 >/dev/null 2>&1)
sed "s#/tmp/wt/[A-Za-z0-9_]*/#$WT/#g" "$SD/demo.cc" > "$WT/demo_local.cc"
g++ -std=gnu++17 -I"$WT/src" -I"$WT" "$WT/demo_local.cc" "$WT/src/.libs/libmeddly.a" -lgmp -o "$WT/demo_bin" 2>>"$OUT" || echo "demo build failed (orig)" >> "$OUT"
timeout 300 "$WT/demo_bin" > "$WT/demo_orig.out" 2>&1; echo "demo_on_unchanged_exit=$?" >> "$OUT"
git apply "$SD/patch.diff" 2>>"$OUT" || { echo "patch_applies=no" >> "$OUT"; git -C /repo worktree remove --force "$WT"; exit 1; }
echo "patch_applies=yes" >> "$OUT"
# header edits: dependency files are dummies in this tree, force recompilation of everything
if git diff --name-only | grep -q '\.h$'; then find src -name '*.lo' -delete; find src -name '*.o' -delete; fi
(make -j8 2>&1 | tail -3) > "$WT/build.log"; 
if [ -f src/.libs/libmeddly.a ]; then echo "builds=yes" >> "$OUT"; else echo "builds=no" >> "$OUT"; fi
(make -k -j8 check 2>&1 | grep -E "^# (TOTAL|PASS|FAIL|ERROR)|^FAIL:" | tr "\n" " ") >> "$OUT"; echo >> "$OUT"
g++ -std=gnu++17 -I"$WT/src" -I"$WT" "$WT/demo_local.cc" "$WT/src/.libs/libmeddly.a" -lgmp -o "$WT/demo_bin2" 2>>"$OUT" || echo "demo build failed (changed)" >> "$OUT"
timeout 300 "$WT/demo_bin2" > "$WT/demo_changed.out" 2>&1; echo "demo_on_changed_exit=$?" >> "$OUT"
tail -3 "$WT/demo_changed.out" | cut -c1-200 >> "$OUT"
cd /; git -C /repo worktree remove --force "$WT"
echo "done" >> "$OUT"
