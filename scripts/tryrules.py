#!/usr/bin/env python3
"""dev helper: run the rules of one module and print a compact summary: tryrules.py rules_guard [rulename]"""
import sys, os, traceback
sys.path.insert(0, os.path.join(os.path.dirname(os.path.abspath(__file__)), "..", "lib"))
import frontend, importlib
fe = frontend.Frontend(); P = frontend.Program(fe)
mod = importlib.import_module(sys.argv[1])
for r in mod.RULES:
    if len(sys.argv) > 2 and sys.argv[2] not in r.__name__: continue
    try:
        R = r(P)
        print("%-30s inst=%d fail=%d fns=%d" % (R.rule, len(R.instances), len(R.findings), len(R.functions)))
        seen=set()
        for f in R.findings:
            if f.key() in seen: continue
            seen.add(f.key()); print("    " + f.text()[:400])
            if len(seen) > 12: break
        if "-n" in sys.argv:
            for n in R.notes[:30]: print("    note: " + n[:200])
        if "-i" in sys.argv:
            for i in R.instances[:60]: print("    ", "ok " if i["ok"] else "BAD", i["id"][:160], i["where"])
    except Exception as e:
        print(r.__name__, "EXC", type(e).__name__, str(e)[:600])
        if not isinstance(e, frontend.AnalysisBroken): traceback.print_exc()
