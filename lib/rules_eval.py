"""eval — the evaluation walk of dd_edge::evaluate (C03, evaluation clauses only).

"Evaluation never depends on how the function is represented internally" rests on three shape facts of src/dd_edge.cc:

  eval.level-sign   at an unprimed level the walk follows the minterm's unprimed value (from), at a primed level the primed one (to):
                    in the by-node walkers `to(-X)` sits on the not-(X>0) edge and `from(X)` on the X>0 edge of the same test; in the
                    by-level walker (identity-reduced relations) from() is used before the first downLevel of a round, to()/from() of
                    the negated level after it, and a skipped primed level compares to(-L) with from(-L);
  eval.twins        the multi-terminal walker and the edge-valued walker (all instantiations) make the same sequence of tests and steps;
                    the edge-valued one only adds the accumulation of edge values;
  eval.dispatch     evaluate() picks the walker by the forest's kind: identity-reduced relation, other relation, set; and the edge-valued
                    helper is instantiated with the edge operation and scalar type of the forest's labeling and edge type."""
import re

from cfg import Graph
from core import Finding, RuleResult
from frontend import AnalysisBroken, where, base_name
from rules_dispatch import _context

M = "MEDDLY::"
WALKERS = ("set_eval", "fully_rel_eval", "ident_rel_eval")


def _nz(t):
    return re.sub(r"\s+", "", (t or "").replace("this->", ""))


def _walkers(P):
    out = {}
    for f in P.fns.values():
        nm = f["q"].split("::")[-1]
        if nm in WALKERS and "evaluator_helper" in f["q"] and f.get("cfg"):
            out.setdefault(nm, []).append(f)
    if len(out) != 3 or any(len(v) < 2 for v in out.values()):
        raise AnalysisBroken("eval: expected set_eval / fully_rel_eval / ident_rel_eval in evaluator_helper_mt and evaluator_helper<EOP>, found %s" % {k: len(v) for k, v in out.items()})
    return out


def _steps(f):
    """the walk as a sequence of tests and steps in source order; edge-value bookkeeping left out"""
    g = Graph(f)
    ev = []
    for n in g.nodes:
        if n.kind == "branch" and n.cond and len(n.succ) >= 2 and n.line:
            ev.append((n.line, 1, "if " + _nz(n.cond["text"])))
        elif n.kind == "call" and n.line:
            nm = n.ev["q"].split("::")[-1]
            if nm in ("from", "to"):
                ev.append((n.line, 0, "%s(%s)" % (nm, _nz(n.ev["args"][0]))))
            elif nm == "downLevel":
                ev.append((n.line, 0, "downLevel(%s)" % _nz(n.ev["args"][0])))
            elif nm == "getDownPtr":
                ev.append((n.line, 2, "down(%s,%s)" % (_nz(n.ev["args"][0]), _nz(n.ev["args"][1]))))
            elif nm in ("getNodeLevel", "getNumVariables"):
                ev.append((n.line, 0, nm))
        elif n.kind == "ldef" and n.line and n.ev["var"] in [p["name"] for p in f.get("params", [])] and _nz(n.ev.get("rhs")) == "0":
            ev.append((n.line, 3, "%s=0" % n.ev["var"]))
    return [t for _, _, t in sorted(ev)]


def rule_level_sign(P):
    R = RuleResult("eval.level-sign", "the evaluation walkers follow the minterm's unprimed value at unprimed levels and its primed value at primed levels")
    W = _walkers(P)
    for f in sorted(W["fully_rel_eval"], key=lambda f: f["inst"]):
        g = Graph(f)
        R.functions.add(f["inst"])
        for n in g.nodes:
            if n.kind != "call" or n.ev["q"].split("::")[-1] not in ("from", "to") or not n.ev["q"].startswith(M + "minterm::"):
                continue
            nm = n.ev["q"].split("::")[-1]
            a = _nz(n.ev["args"][0])
            R.paths += 1
            iid = "%s: %s(%s)" % (f["inst"].replace(M, "")[:70], nm, a)
            x = a[1:] if a.startswith("-") else a
            tests = [b for b in g.nodes if b.kind == "branch" and b.cond and len(b.succ) == 2 and _nz(b.cond["text"]) in ("%s>0" % x, "0<%s" % x)]
            ok = False
            for b in tests:
                te = 1 if b.cond.get("neg") else 0
                pos = g.reach([s for s, i in b.succ if i == te], avoid=lambda k, b=b: k.id == b.id)
                neg = g.reach([s for s, i in b.succ if i != te], avoid=lambda k, b=b: k.id == b.id)
                if nm == "from" and not a.startswith("-") and n.id in pos and n.id not in neg:
                    ok = True
                if nm == "to" and a.startswith("-") and n.id in neg and n.id not in pos:
                    ok = True
            if ok:
                R.ok(iid, where(f, n.line))
            else:
                R.fail(iid, where(f, n.line), Finding(R.rule, f["file"], base_name(f["q"]), "%s(%s)" % (nm, a),
                       "%s(%s) is not on the %s arm of a `%s > 0` test: a %s level is resolved with the minterm's %s value" % (
                           nm, a, "positive" if nm == "from" else "non-positive", x, "primed" if nm == "from" else "unprimed", "unprimed" if nm == "from" else "primed"), n.line, inst=f["inst"]))
    for f in sorted(W["set_eval"], key=lambda f: f["inst"]):
        R.functions.add(f["inst"])
        st = _steps(f)
        R.paths += 1
        iid = "%s: sets use the unprimed value only" % f["inst"].replace(M, "")[:70]
        if any(s.startswith("from(") and not s.startswith("from(-") for s in st) and not any(s.startswith("to(") for s in st):
            R.ok(iid, where(f))
        else:
            R.fail(iid, where(f), Finding(R.rule, f["file"], base_name(f["q"]), "set", "the set walker must index by from(level) only; found %s" % [s for s in st if s.startswith(("from(", "to("))], f["line"], inst=f["inst"]))
    for f in sorted(W["ident_rel_eval"], key=lambda f: f["inst"]):
        R.functions.add(f["inst"])
        st = _steps(f)
        R.paths += 1
        iid = "%s: a round is unprimed step, downLevel, primed step (or from==to test), downLevel" % f["inst"].replace(M, "")[:60]
        idx = [i for i, s in enumerate(st) if s.startswith("downLevel(")]
        bad = None
        if len(idx) != 2:
            bad = "expected two downLevel steps per round, found %d" % len(idx)
        else:
            lv = st[idx[0]][len("downLevel("):-1]
            first = [s for s in st[:idx[0]] if s.startswith(("from(", "to("))]
            second = [s for s in st[idx[0]:idx[1]] if s.startswith(("from(", "to("))]
            if first != ["from(%s)" % lv]:
                bad = "before the first downLevel the walk must use from(%s) only, found %s" % (lv, first)
            elif sorted(set(second)) != sorted({"to(-%s)" % lv, "from(-%s)" % lv}) or second[0] != "to(-%s)" % lv:
                bad = "between the two downLevel steps the walk must use to(-%s) for the node and compare to(-%s) with from(-%s) for a skipped level, found %s" % (lv, lv, lv, second)
            elif not any(re.fullmatch(r"if (to\(-%s\)!=from\(-%s\)|from\(-%s\)!=to\(-%s\))" % ((re.escape(lv),) * 4), "if " + s[3:].replace("m.", "")) for s in st if s.startswith("if ") and "!=" in s):
                bad = "no `to(-%s) != from(-%s)` test for a skipped primed level" % (lv, lv)
        if bad is None:
            R.ok(iid, where(f))
        else:
            R.fail(iid, where(f), Finding(R.rule, f["file"], base_name(f["q"]), "ident-round", bad, f["line"], inst=f["inst"]))
    R.require_floor(20, "indexing steps of the evaluation walkers")
    return R


def rule_twins(P):
    R = RuleResult("eval.twins", "the multi-terminal and the edge-valued evaluation walkers make the same sequence of tests and steps (the edge-valued ones add only the accumulation of edge values)")
    W = _walkers(P)
    for nm in WALKERS:
        mt = [f for f in W[nm] if "evaluator_helper_mt" in f["q"]]
        evs = [f for f in W[nm] if "evaluator_helper_mt" not in f["q"]]
        if len(mt) != 1 or not evs:
            raise AnalysisBroken("eval.twins: %s: %d MT / %d EV walkers" % (nm, len(mt), len(evs)))
        norm = lambda st: [re.sub(r"^down\(([^,]+),([^,]+).*\)$", r"down(\1,\2)", s) for s in st]
        a = norm(_steps(mt[0]))
        for f in sorted(evs, key=lambda f: f["inst"]):
            b = norm(_steps(f))
            R.functions.add(f["inst"])
            R.paths += 1
            iid = "%s walks like evaluator_helper_mt::%s (%d steps)" % (f["inst"].replace(M, "")[:70], nm, len(a))
            if a == b:
                R.ok(iid, where(f))
            else:
                k = next((i for i, (x, y) in enumerate(zip(a, b)) if x != y), min(len(a), len(b)))
                R.fail(iid, where(f), Finding(R.rule, f["file"], base_name(f["q"]), "step#%d" % (k + 1),
                       "step %d is `%s` in the multi-terminal walker but `%s` in the edge-valued one" % (k + 1, a[k] if k < len(a) else "(end)", b[k] if k < len(b) else "(end)"), f["line"], inst=f["inst"]))
    R.require_floor(9, "walker twins")
    return R


def rule_eval_dispatch(P):
    R = RuleResult("eval.dispatch", "dd_edge::evaluate and evaluator_helper::evaluate call ident_rel_eval only for identity-reduced relation forests, fully_rel_eval only for other relations, set_eval only for sets; the edge-valued helper is instantiated with the edge operation and scalar type the forest's labeling and edge type name")
    n = 0
    seen = set()
    for f in sorted(P.fns.values(), key=lambda f: (f["file"], f["line"], f["inst"])):
        if not f.get("cfg") or f["file"] != "dd_edge.cc" or f["q"].split("::")[-1] != "evaluate":
            continue
        g = Graph(f)
        for k in g.nodes:
            if k.kind == "call" and k.ev["q"].split("::")[-1] in WALKERS and "evaluator_helper" in k.ev["q"]:
                nm = k.ev["q"].split("::")[-1]
                key = (f["file"], k.line, nm, f["inst"])
                if key in seen:
                    continue
                seen.add(key)
                flip = {"true": "false", "false": "true"}
                ctx = {(_nz(t).lstrip("!"), flip.get(arm, arm) if _nz(t).startswith("!") else arm) for t, arm in _context(g, k)}
                rel = sorted({a for t, a in ctx if re.fullmatch(r"[\w>.-]+isForRelations\(\)", t)})
                idr = sorted({a for t, a in ctx if re.fullmatch(r"[\w>.-]+isIdentityReduced\(\)", t)})
                want = {"set_eval": (["false"], None), "fully_rel_eval": (["true"], ["false"]), "ident_rel_eval": (["true"], ["true"])}[nm]
                n += 1
                R.functions.add(f["inst"])
                R.paths += 1
                iid = "%s: %s under relation=%s identity=%s" % (f["inst"].replace(M, "")[:60], nm, rel, idr)
                if rel == want[0] and (want[1] is None or idr == want[1]):
                    R.ok(iid, where(f, k.line))
                else:
                    R.fail(iid, where(f, k.line), Finding(R.rule, f["file"], base_name(f["q"]), "walker:" + nm,
                           "%s is called under isForRelations=%s, isIdentityReduced=%s; it is written for %s" % (nm, rel or "?", idr or "?", {"set_eval": "sets", "fully_rel_eval": "relations that are not identity reduced", "ident_rel_eval": "identity-reduced relations"}[nm]), k.line, inst=f["inst"]))
            if k.kind == "construct" and "evaluator_helper<" in re.sub(r"\s+", "", k.ev.get("q", "")):
                q = re.sub(r"\s+", "", k.ev["q"])
                m = re.search(r"evaluator_helper<MEDDLY::EdgeOp_(plus|times)<(\w+)>>", q)
                if not m:
                    continue
                ctx = [_nz(t) for t, arm in _context(g, k) if arm == "true"]
                lab_ok = any(("isEVPlus()" in t or "isIndexSet()" in t) for t in ctx) if m.group(1) == "plus" else any("isEVTimes()" in t for t in ctx)
                et = {"int": "INT", "long": "LONG", "float": "FLOAT", "double": "DOUBLE"}[m.group(2)]
                ty_ok = any(re.search(r"edge_type::%s\b" % et, t) and "getEdgeType()" in t for t in ctx)
                n += 1
                R.paths += 1
                iid = "evaluate: evaluator_helper<EdgeOp_%s<%s>> under %s" % (m.group(1), m.group(2), [t for t in ctx if "Edge" in t or "isEV" in t or "isIndex" in t])
                if lab_ok and ty_ok:
                    R.ok(iid, where(f, k.line))
                else:
                    R.fail(iid, where(f, k.line), Finding(R.rule, f["file"], base_name(f["q"]), "helper:%s<%s>" % (m.group(1), m.group(2)),
                           "evaluator_helper<EdgeOp_%s<%s>> is constructed %s" % (m.group(1), m.group(2), "for another labeling" if not lab_ok else "for another edge type"), k.line))
    if n < 10:
        raise AnalysisBroken("eval.dispatch: expected ≥10 walker calls / helper instantiations in dd_edge.cc evaluate functions, found %d" % n)
    R.require_floor(10, "walker selections")
    return R


def rule_iter_advance(P):
    """iterator_templ::next advances one free variable per step: the cursor node (U_x), the position (Z_x), the minterm entry (M_x) and the accumulated
    edge value (ev_x) it touches all belong to the same variable and the same side (from = unprimed, to = primed); the edge value is continued from the
    level above on the other side, and the rest of the minterm is re-initialised below"""
    R = RuleResult("iter.advance-consistent", "in every instantiation of iterator_templ::next each advance block uses U_s(k), Z_s(k), M_s(k) and ev_s(k) of one side s; sets: continue from ev_from(k+1), restart first_unpr(k-1); primed step: from ev_from(k), restart first_unpr(k-1); unprimed step of a relation: from ev_to(k+1), restart first_pri(k); running out of steps sets atEnd")
    fs = [f for f in P.fns.values() if "iterator_templ" in f["q"] and f["q"].endswith("::next") and f.get("cfg")]
    if len(fs) < 3:
        raise AnalysisBroken("iter.advance-consistent: expected ≥3 instantiations of iterator_templ::next, found %d" % len(fs))
    for f in sorted(fs, key=lambda f: f["inst"]):
        g = Graph(f)
        R.functions.add(f["inst"])
        inst = f["inst"].replace(M, "")[:50]
        sets = [b for b in g.nodes if b.kind == "branch" and b.cond and len(b.succ) == 2 and any(c.endswith("isForSets") for c in b.cond["calls"])]
        if len(sets) != 1:
            raise AnalysisBroken("iter.advance-consistent: no single isForSets() test in %s" % f["inst"])
        sb = sets[0]
        t_edge = 1 if sb.cond.get("neg") else 0
        set_arm = g.reach([s_ for s_, i in sb.succ if i == t_edge]) - g.reach([s_ for s_, i in sb.succ if i != t_edge])
        blocks = [k for k in g.nodes if k.kind == "ldef" and re.fullmatch(r"U_(from|to)\((\w+)\)", _nz(k.ev.get("rhs", "")))]
        if len(blocks) != 3:
            raise AnalysisBroken("iter.advance-consistent: expected 3 advance blocks in %s, found %d" % (f["inst"], len(blocks)))
        for blk in sorted(blocks, key=lambda k: k.line):
            side, kv = re.fullmatch(r"U_(from|to)\((\w+)\)", _nz(blk.ev["rhs"])).groups()
            in_sets = blk.id in set_arm
            # the block: from its definition to the recursion call that ends the step
            rec = None
            cur = [blk.id]
            body = []
            seen = set()
            while cur:
                x = cur.pop()
                if x in seen:
                    continue
                seen.add(x)
                n_ = g.nodes[x]
                body.append(n_)
                if n_.kind == "call" and n_.ev["q"].split("::")[-1] in ("first_unpr", "first_pri"):
                    rec = n_
                    continue
                if n_.kind == "ldef" and n_.id != blk.id and re.fullmatch(r"U_(from|to)\(\w+\)", _nz(n_.ev.get("rhs", ""))):
                    continue
                if n_.kind == "branch" and n_.cond and _nz(n_.cond["text"]) == blk.ev["var"]:
                    # only the non-null arm belongs to the block
                    t = 1 if n_.cond.get("neg") else 0
                    cur += [s_ for s_, i in n_.succ if i == t]
                    continue
                cur += [s_ for s_, i in n_.succ if not (n_.kind == "branch" and n_.cond and "getSize" in n_.cond["text"] and i == 1)]
            calls = [n_ for n_ in body if n_.kind == "call"]
            uses = {}
            for n_ in calls:
                m = re.fullmatch(r"(Z|M)_(from|to)", n_.ev["q"].split("::")[-1])
                if m:
                    uses.setdefault(m.group(1), set()).add((m.group(2), _nz(n_.ev["args"][0])))
            assign = [n_ for n_ in calls if n_.ev["q"].split("::")[-1] == "operator=" and re.fullmatch(r"ev_(from|to)\(.*\)", _nz(n_.ev["args"][0]))]
            kind = "set step" if in_sets else ("primed step" if side == "to" else "unprimed step")
            want_parent, want_rec, want_arg = {"set step": ("ev_from(%s+1)" % kv, "first_unpr", "%s-1" % kv), "primed step": ("ev_from(%s)" % kv, "first_unpr", "%s-1" % kv),
                                               "unprimed step": ("ev_to(%s+1)" % kv, "first_pri", kv)}[kind]
            problems = []
            for what in ("Z", "M"):
                if uses.get(what) != {(side, kv)}:
                    problems.append("%s_%s(%s) expected, found %s" % (what, side, kv, sorted(uses.get(what, []))))
            if len(assign) != 1 or _nz(assign[0].ev["args"][0]) != "ev_%s(%s)" % (side, kv):
                problems.append("the edge value assigned is %s, expected ev_%s(%s)" % ([_nz(a.ev["args"][0]) for a in assign], side, kv))
            elif not re.search(r"applyOp\(%s," % re.escape(want_parent), _nz(assign[0].ev["args"][1])):
                problems.append("the edge value is continued from `%s`, expected %s" % (_nz(assign[0].ev["args"][1])[:60], want_parent))
            if rec is None or rec.ev["q"].split("::")[-1] != want_rec or _nz(rec.ev["args"][0]) != want_arg:
                problems.append("the rest is restarted by %s(%s,…), expected %s(%s,…)" % (rec.ev["q"].split("::")[-1] if rec else None, _nz(rec.ev["args"][0]) if rec else None, want_rec, want_arg))
            R.paths += 1
            iid = "%s: %s on U_%s(%s)" % (inst, kind, side, kv)
            if not problems:
                R.ok(iid, where(f, blk.line))
            else:
                R.fail(iid, where(f, blk.line), Finding(R.rule, f["file"], base_name(f["q"]), "%s:%s" % (kind.replace(" ", "-"), side), "; ".join(problems), blk.line, inst=f["inst"]))
        R.paths += 1
        iid = "%s: running out of steps sets atEnd" % inst
        end = lambda k: k.kind == "call" and k.ev["q"].endswith("::setAtEnd") and _nz(k.ev["args"][0]) == "true"
        rets = {k.id for k in g.nodes if k.kind == "ret"}
        p_ = g.path(g.entry, lambda k: k.id == g.exit, avoid=lambda k: end(k) or k.id in rets)
        (R.ok(iid, where(f)) if p_ is None else R.fail(iid, where(f), Finding(R.rule, f["file"], base_name(f["q"]), "at-end", "next() can fall off its loops without setAtEnd(true): the iterator keeps reporting the last assignment", f["line"], inst=f["inst"])))
    R.require_floor(12, "advance blocks")
    return R


def rule_fold_mirror(P):
    """minterm collections: the values of repeated minterms are folded by minimum or maximum, with +infinity as a special value.  Both folds are
    commutative, so what happens when the *element* is infinite and what happens when the *accumulator* is infinite are mirror images: if an
    infinite element leaves the accumulator alone (minimum: infinity is the identity), an infinite accumulator must give way to the element; if an
    infinite element replaces the accumulator (maximum: infinity absorbs), an infinite accumulator stays.  Exactly one of the two arms assigns
    accumulator = element."""
    R = RuleResult("sibling.fold-mirror", "in fbop_min_tmpl / fbop_max_tmpl ::finalize exactly one of the arms `element is +infinity` / `accumulator is +infinity` assigns accumulator = element (the two cases of a commutative fold are mirror images)")
    n = 0
    for f in sorted(P.fns.values(), key=lambda f: (f["file"], f["line"], f["inst"])):
        if not f.get("cfg") or not re.search(r"fbop_(min|max)_tmpl<.*>::finalize$", f["inst"]):
            continue
        g = Graph(f)
        enc = [k for k in g.nodes if k.kind == "call" and k.ev["q"].endswith("::getEdgeForValue")]
        if not enc:
            raise AnalysisBroken("sibling.fold-mirror: %s no longer encodes its result with getEdgeForValue" % f["inst"])
        acc = _nz(enc[0].ev["args"][0])
        tests = [b for b in g.nodes if b.kind == "branch" and b.cond and len(b.succ) == 2 and re.fullmatch(r"!?(\w+)\.isPlusInfinity\(\)", _nz(b.cond["text"]))]
        by = {}
        for b in tests:
            by.setdefault(re.fullmatch(r"!?(\w+)\.isPlusInfinity\(\)", _nz(b.cond["text"])).group(1), []).append(b)
        els = [v for v in by if v != acc]
        if acc not in by or len(els) != 1:
            raise AnalysisBroken("sibling.fold-mirror: %s: expected +infinity tests of the accumulator `%s` and of one element, found %s" % (f["inst"], acc, sorted(by)))
        el = els[0]
        n += 1
        R.functions.add(f["inst"])
        R.paths += 1

        def assigns(b):
            te = 1 if b.cond.get("neg") else 0
            cut = lambda k: k.kind == "branch" and k.id != b.id and k.cond and ("<" in k.cond["text"] and "isPlusInfinity" not in k.cond["text"]) and False
            t_arm = g.reach([s_ for s_, i in b.succ if i == te], avoid=lambda k: k.id == b.id)
            f_arm = g.reach([s_ for s_, i in b.succ if i != te], avoid=lambda k: k.id == b.id)
            only = t_arm - f_arm
            return any(k.kind == "call" and k.ev["q"].endswith("operator=") and [_nz(a) for a in k.ev["args"]] == [acc, el] for k in (g.nodes[i] for i in only))
        r_el = any(assigns(b) for b in by[el])
        r_acc = any(assigns(b) for b in by[acc])
        iid = "%s: element-infinite arm %s, accumulator-infinite arm %s" % (f["inst"].replace(M, "")[:60], "takes the element" if r_el else "keeps the accumulator", "takes the element" if r_acc else "keeps the accumulator")
        if r_el != r_acc:
            R.ok(iid, where(f))
        else:
            R.fail(iid, where(f), Finding(R.rule, f["file"], base_name(f["q"]), "mirror",
                   "both +infinity cases %s: the fold gives different results for {…, +infinity, x} and {…, x, +infinity} — the function built from a minterm collection depends on the order of its entries" % ("keep the accumulator" if not r_el else "take the element"), f["line"], inst=f["inst"]))
    if n < 4:
        raise AnalysisBroken("sibling.fold-mirror: expected ≥4 instantiations of fbop_min_tmpl / fbop_max_tmpl ::finalize, found %d" % n)
    R.require_floor(4, "collection folds")
    return R


# least legal value of each coordinate of a minterm position (minterm::setVar / setVars contract: from >= 0 or DONT_CARE; to >= 0, DONT_CARE or
# DONT_CHANGE) — "the largest value of the partition is the least legal one" is then the same as "every value of the partition is that one"
BOTTOM = {"V": -1, "U": -1, "P": -2}
NAMES = {-1: "DONT_CARE", -2: "DONT_CHANGE"}


def rule_uniform_shortcut(P):
    """the recursive partition builder over a sorted minterm collection (fbuilder::createEdgeSet / createEdgeRel) has shortcuts that send the whole
    interval [low, high) down one level and then cover level L with a single pattern.  That is the construction the collection specifies only if every
    minterm of the interval has the same entry at level L, so the shortcut's governing tests must imply uniformity: per sorted coordinate the maximum is
    pinned to a constant c and either the minimum is pinned to the same c or c is the least legal value of the coordinate; and the pattern laid over the
    level is the one c names (don't-care: redundant levels, don't-change: identity pattern).  Seed C03b dropped the minimum test of the (x,x) shortcut:
    a partition mixing (x,x) and (x,i) lost its don't-change constraint"""
    R = RuleResult("build.uniform-shortcut", "in every instantiation of fbuilder::createEdgeSet / createEdgeRel: a recursive call on the whole interval is governed by tests that pin, per coordinate of getMinMax, the maximum to a constant and the minimum to the same constant unless it is the coordinate's least legal value; the level is then covered by makeRedundantsTo for DONT_CARE and by identityPattern for DONT_CHANGE, and identityPattern is used nowhere else than under a DONT_CHANGE test of a primed coordinate")
    seen = set()
    nshort = 0
    for f in sorted(P.fns.values(), key=lambda f: (f["file"], f["line"], f["inst"])):
        if not f.get("cfg") or not re.search(r"fbuilder<.*>::createEdge(Set|Rel)$", f["q"]) or (f["file"], f["line"]) in seen:
            continue
        seen.add((f["file"], f["line"]))
        ps = [p_["name"] for p_ in f.get("params", [])]
        if len(ps) < 3:
            raise AnalysisBroken("build.uniform-shortcut: %s no longer has (L, low, high, …) parameters" % f["q"])
        Lp, low, high = ps[0], ps[1], ps[2]
        g = Graph(f)
        short = base_name(f["q"]).replace(M, "")
        role = {}   # variable -> ("min"|"max", coordinate)
        for k in g.nodes:
            if k.kind == "call" and k.ev["q"].endswith("::getMinMax"):
                cal = [c for c in P.by_q.get(k.ev["q"], []) if len(c.get("params", [])) == len(k.ev["args"])]
                if not cal:
                    raise AnalysisBroken("build.uniform-shortcut: cannot resolve the %d-argument getMinMax called by %s" % (len(k.ev["args"]), short))
                for pn, a in zip([p_["name"] for p_ in cal[0]["params"]], k.ev["args"]):
                    m = re.fullmatch(r"(min|max)([A-Z])", pn)
                    if m and re.fullmatch(r"\w+", _nz(a)):
                        role[_nz(a)] = (m.group(1), m.group(2))
        coords = sorted({c for _, c in role.values()})
        if not coords or any(c not in BOTTOM for c in coords):
            raise AnalysisBroken("build.uniform-shortcut: %s: getMinMax roles %s not understood" % (short, role))
        derived = dict(role)
        for k in g.nodes:
            if k.kind == "ldef" and _nz(k.ev.get("rhs") or "") in role:
                derived[k.ev["var"]] = role[_nz(k.ev["rhs"])]

        def governing(k):
            out = []
            for c in g.nodes:
                if c.kind != "branch" or not c.cond or len(c.succ) != 2:
                    continue
                arms = [i for s_, i in c.succ if k.id in g.reach([s_], avoid=lambda x, c=c: x.id == c.id)]
                if len(arms) == 1:
                    out.append((c.cond, arms[0]))
            return out

        def pins(k, table):
            """{variable: constant} known to hold at k from ==-tests on their true edge"""
            out = {}
            for c, arm in governing(k):
                if c.get("op") != "==" or arm != (1 if c.get("neg") else 0):
                    continue
                l, r = c.get("l") or {}, c.get("r") or {}
                for a, b in ((l, r), (r, l)):
                    if "const" in a and _nz(b.get("text")) in table:
                        out[_nz(b["text"])] = a["const"]
            return out
        for k in g.nodes:
            if k.kind != "call":
                continue
            nm = k.ev["q"].split("::")[-1]
            a = [_nz(x) for x in k.ev["args"]]
            if k.ev["q"] == f["q"] and len(a) >= 3 and a[1] == low and a[2] == high:
                nshort += 1
                R.functions.add(f["inst"])
                pin = pins(k, role)
                got = {}
                for c in coords:
                    R.paths += 1
                    mx = [v for v, (mm, cc) in role.items() if mm == "max" and cc == c]
                    mn = [v for v, (mm, cc) in role.items() if mm == "min" and cc == c]
                    cm = next((pin[v] for v in mx if v in pin), None)
                    iid = "%s: whole-interval shortcut under %s: coordinate %s" % (short, ", ".join("%s==%s" % (v, NAMES.get(x, x)) for v, x in sorted(pin.items())) or "no pin", c)
                    if cm is None:
                        R.fail(iid, where(f, k.line), Finding(R.rule, f["file"], base_name(f["q"]), "shortcut:%s:max%s-unpinned" % (",".join("%s=%s" % x for x in sorted(pin.items())), c),
                               "the whole interval [%s, %s) is sent down as one although the largest %s entry of the partition is not pinned to a constant: minterms with different entries at level %s are merged" % (low, high, c, Lp), k.line))
                        continue
                    got[c] = cm
                    if cm == BOTTOM[c] or any(pin.get(v) == cm for v in mn):
                        R.ok(iid, where(f, k.line))
                    else:
                        R.fail(iid, where(f, k.line), Finding(R.rule, f["file"], base_name(f["q"]), "shortcut:%s:min%s-unpinned" % (",".join("%s=%s" % x for x in sorted(pin.items())), c),
                               "the whole interval [%s, %s) is sent down as one because the largest %s entry is %s, but %s is not the least legal %s entry (that is %s) and the smallest entry is not tested: a partition that also holds %s entries loses them" % (low, high, c, NAMES.get(cm, cm), NAMES.get(cm, cm), c, NAMES[BOTTOM[c]], NAMES[BOTTOM[c]]), k.line))
                last = coords[-1] if coords != ["P", "U"] else "P"
                if last in got:
                    after = {x.ev["q"].split("::")[-1] for x in g.nodes if x.kind == "call" and x.id in g.reach([k.id])}
                    want, other = ("identityPattern", "makeRedundantsTo") if got[last] == -2 else ("makeRedundantsTo", "identityPattern")
                    R.paths += 1
                    iid = "%s: whole-interval shortcut for %s: level covered by %s" % (short, NAMES.get(got[last], got[last]), want)
                    if want in after and other not in after:
                        R.ok(iid, where(f, k.line))
                    else:
                        R.fail(iid, where(f, k.line), Finding(R.rule, f["file"], base_name(f["q"]), "cover:" + NAMES.get(got[last], str(got[last])),
                               "every entry of the partition at level %s is %s, but the level is covered by %s instead of %s" % (Lp, NAMES.get(got[last], got[last]), sorted(after & {"identityPattern", "makeRedundantsTo"}), want), k.line))
            elif nm == "identityPattern":
                R.paths += 1
                R.functions.add(f["inst"])
                pin = pins(k, derived)
                iid = "%s: identityPattern(%s) only for DONT_CHANGE" % (short, ", ".join(a)[:40])
                if any(x == -2 and derived[v][1] == "P" for v, x in pin.items()):
                    R.ok(iid, where(f, k.line))
                else:
                    R.fail(iid, where(f, k.line), Finding(R.rule, f["file"], base_name(f["q"]), "identity-without-dont-change",
                           "an identity pattern is laid over level %s without a governing `DONT_CHANGE == <primed entry>` test (known here: %s)" % (Lp, sorted(pin.items())), k.line))
            elif nm == "makeRedundantsTo" and len(a) == 3 and a[2] == Lp and a[1] in (Lp + "-1",):
                R.paths += 1
                pin = pins(k, derived)
                iid = "%s: makeRedundantsTo(%s) not for DONT_CHANGE" % (short, ", ".join(a)[:40])
                if any(x == -2 and derived[v][1] == "P" for v, x in pin.items()):
                    R.fail(iid, where(f, k.line), Finding(R.rule, f["file"], base_name(f["q"]), "redundant-for-dont-change",
                           "both levels of variable %s are made redundant (don't care) under a `DONT_CHANGE == <primed entry>` test" % Lp, k.line))
                else:
                    R.ok(iid, where(f, k.line))
    if nshort < 3:
        raise AnalysisBroken("build.uniform-shortcut: only %d whole-interval shortcuts found in createEdgeSet / createEdgeRel, expected 3" % nshort)
    R.require_floor(8, "shortcut and pattern obligations of the minterm-collection builder")
    return R


def rule_sparse_shrunk(P):
    """the minterm builders create a node through newSetNode / newUnprimedNode / newPrimedNode(k, n): with a zero default that is a *sparse* unpacked node
    of declared size n, and addToNode(node, z, …) fills slot z — and advances z — only when the edge is not the transparent one.  The declared size is
    therefore an upper bound; what createReducedNode reads is `size` slots.  Every sparse path from the creation to createReducedNode must pass
    node->shrink(z) (the collection builders do: `if (Cu->isSparse()) Cu->shrink(z)`).  The single-minterm builders did not (D23): a minterm whose value
    is the forest's zero left one uninitialised slot in every node of its path"""
    R = RuleResult("build.sparse-shrunk", "in the minterm builders (fbuilder_forest, fbuilder<OP>): every node created by newSetNode / newUnprimedNode / newPrimedNode and filled through addToNode reaches createReducedNode only through node->shrink(count) on the paths where it is sparse")
    seen = set()
    n = 0
    for f in sorted(P.fns.values(), key=lambda f: (f["file"], f["line"], f["inst"])):
        if not f.get("cfg") or f["file"] != "minterms.cc" or not re.search(r"fbuilder", f["q"]) or (f["file"], f["line"]) in seen:
            continue
        g = Graph(f)
        made = {}
        for k in g.nodes:
            if k.kind == "ldef" and re.match(r"(new(Set|Unprimed|Primed)Node)\(", _nz(k.ev.get("rhs") or "")):
                made.setdefault(k.ev["var"], []).append(k)
        if not made:
            continue
        seen.add((f["file"], f["line"]))
        short = base_name(f["q"]).replace(M, "")
        for k in g.nodes:
            if k.kind != "call" or not k.ev["q"].endswith("::createReducedNode") or not k.ev["args"]:
                continue
            U = _nz(k.ev["args"][0])
            if U not in made:
                continue
            filled = [x for x in g.nodes if x.kind == "call" and x.ev["q"].endswith("::addToNode") and x.ev["args"] and _nz(x.ev["args"][0]) == U]
            if not filled:
                continue
            n += 1
            R.functions.add(f["inst"])
            iid = "%s: `%s` shrunk to its fill count before createReducedNode" % (short, U)
            bad = None
            for c in made[U]:
                R.paths += 1
                # created on the arm where the default is not zero: the helpers return a full node of the level's size there
                full = False
                for b in g.nodes:
                    if b.kind == "branch" and b.cond and len(b.succ) == 2 and _nz(b.cond["text"]).lstrip("!") == "default_is_zero":
                        arms = [i for s_, i in b.succ if c.id in g.reach([s_], avoid=lambda x, b=b: x.id == b.id)]
                        dominated = c.id not in g.reach([g.entry], avoid=lambda x, b=b: x.id == b.id)
                        if dominated and arms == [0 if b.cond.get("neg") else 1]:
                            full = True
                if full:
                    continue
                pth = g.path(c.id, lambda x, k=k: x.id == k.id,
                             avoid=lambda x, U=U, k=k: (x.kind == "call" and x.ev["q"].split("::")[-1] in ("shrink", "resize") and _nz(x.ev.get("recv") or "") == U)
                             or (x.kind == "ldef" and x.ev["var"] == U and x.id != c.id),
                             avoid_edge=lambda b, arm, U=U: b.kind == "branch" and b.cond and _nz(b.cond["text"]).lstrip("!") == U + "->isSparse()" and arm == (0 if b.cond.get("neg") else 1))
                if pth:
                    bad = (c, pth)
                    break
            if bad:
                R.fail(iid, where(f, k.line), Finding(R.rule, f["file"], base_name(f["q"]), "reduce-unshrunk@" + str(sum(1 for x in g.nodes if x.kind == "call" and x.ev["q"].endswith("::createReducedNode") and x.line <= k.line)),
                       "node `%s` is created with a declared sparse size and filled through addToNode, which skips transparent edges, but reaches createReducedNode without %s->shrink(count): when the edge added is the forest's zero the node keeps an uninitialised slot" % (U, U), k.line))
            else:
                R.ok(iid, where(f, k.line))
    if n < 6:
        raise AnalysisBroken("build.sparse-shrunk: only %d builder nodes reduced after addToNode found, expected ≥6" % n)
    R.require_floor(6, "builder nodes reduced after addToNode")
    return R


RULES = [rule_level_sign, rule_twins, rule_eval_dispatch, rule_iter_advance, rule_fold_mirror, rule_uniform_shortcut, rule_sparse_shrunk]
