"""life — teardown order, registries, init/cleanup pairing (DESIGN §2.8).  Single-function CFG rules.

Every rule is a must-pass-through / ordering statement over *all normal paths* of one function,
instantiated with MEDDLY's own function names (confirmed by reading forest.cc, domain.cc,
initializer.cc, oper.cc, ct_entry_type.cc)."""
from cfg import Graph, qmatch, show_path
from core import Finding, RuleResult
from frontend import AnalysisBroken, where, base_name


def _is_call(n, name):
    return n.kind in ("call", "construct") and qmatch(n.ev["q"], name)


def must_call(R, P, fn, names, reason):
    """every normal path of fn from entry to exit passes a call to each of names"""
    g = Graph(fn)
    R.functions.add(fn["inst"])
    for nm in names:
        R.paths += 1
        iid = "%s must call %s" % (fn["q"], nm)
        if not g.calls(nm):
            R.fail(iid, where(fn), Finding(R.rule, fn["file"], fn["q"], nm, "no call to %s at all (%s)" % (nm, reason), fn["line"]))
            continue
        p = g.path(g.entry, lambda n: n.id == g.exit, avoid=lambda n, nm=nm: _is_call(n, nm))
        if p:
            R.fail(iid, where(fn), Finding(R.rule, fn["file"], fn["q"], nm, "a normal path reaches the exit without calling %s (%s)" % (nm, reason), fn["line"], show_path(p)))
        else:
            R.ok(iid, where(fn))


def ordered(R, P, fn, first, second, reason, first_pred=None, second_pred=None, label=None):
    """on every path, no `second` event is reached before a `first` event"""
    g = Graph(fn)
    R.functions.add(fn["inst"])
    fp = first_pred or (lambda n: _is_call(n, first))
    sp = second_pred or (lambda n: _is_call(n, second))
    iid = label or "%s: %s before %s" % (fn["q"], first, second)
    R.paths += 1
    if not g.where(sp) or not g.where(fp):
        R.fail(iid, where(fn), Finding(R.rule, fn["file"], fn["q"], "%s<%s" % (first, second), "expected events are missing (%s)" % reason, fn["line"]))
        return
    p = g.path(g.entry, sp, avoid=fp)
    if p:
        R.fail(iid, where(fn, p[-1].line), Finding(R.rule, fn["file"], fn["q"], "%s<%s" % (first, second),
               "%s can be reached before %s (%s)" % (second, first, reason), p[-1].line, show_path(p)))
    else:
        R.ok(iid, where(fn))


def rule_forest_dtor(P):
    R = RuleResult("life.forest-dtor", "~forest detaches edges, unregisters the forest and invalidates entry types before operations (and their per-operation tables) are destroyed")
    fn = P.find("MEDDLY::forest::~forest")[0]
    must_call(R, P, fn, ["forest::unregisterDDEdges", "forest::unregisterForest", "ct_entry_type::invalidateAllWithForest", "operation::destroyAllWithForest"],
              "edges must become inert, the id must leave the registry, cached entries must be invalidated, operations on the forest must die")
    ordered(R, P, fn, "ct_entry_type::invalidateAllWithForest", "operation::destroyAllWithForest",
            "destroying an operation empties its table; entries still naming this forest would uncache nodes in freed storage")
    ordered(R, P, fn, "forest::unregisterForest", "operation::destroyAllWithForest",
            "operation destructors must already see the forest id as dead")
    fn2 = P.find("MEDDLY::forest::markForDeletion")[0]
    must_call_after_flag(R, fn2)
    R.require_floor(6, "teardown obligations in ~forest")
    return R


def must_call_after_flag(R, fn):
    g = Graph(fn)
    R.functions.add(fn["inst"])
    R.paths += 1
    iid = "%s detaches edges unless already marked" % fn["q"]
    # every path to exit passes unregisterDDEdges or the `is_marked_for_deletion` early return
    p = g.path(g.entry, lambda n: n.id == g.exit,
               avoid=lambda n: _is_call(n, "forest::unregisterDDEdges") or (n.kind == "branch" and n.cond and "is_marked_for_deletion" in n.cond["refs"]))
    if p or not g.calls("forest::unregisterDDEdges"):
        R.fail(iid, where(fn), Finding(R.rule, fn["file"], fn["q"], "forest::unregisterDDEdges", "marking a forest for deletion must detach its edges", fn["line"], show_path(p) if p else None))
    else:
        R.ok(iid, where(fn))


def rule_unregister(P):
    R = RuleResult("life.unregister", "unregisterForest nulls the registry slot and drops per-forest unpacked-node lists; unregisterDDEdges zeroes node and forest id of every edge")
    fn = P.find("MEDDLY::forest::unregisterForest")[0]
    g = Graph(fn)
    R.functions.add(fn["inst"])
    stores = g.where(lambda n: n.kind == "store" and n.ev["member"] == "MEDDLY::forest::all_forests")
    iid = "unregisterForest clears all_forests[fid]"
    if stores and all("nullptr" in s.ev["rhs"] or s.ev["rhs"].strip() in ("0", "NULL") for s in stores):
        R.ok(iid, where(fn, stores[0].line))
    else:
        R.fail(iid, where(fn), Finding(R.rule, fn["file"], fn["q"], "all_forests[]=nullptr", "the registry slot of a destroyed forest is not nulled: getForestWithID would return a dangling pointer", fn["line"]))
    must_call(R, P, fn, ["unpacked_node::doneForest", "domain::unregisterForest"], "free lists and domain registry must forget the forest")
    fn = P.find("MEDDLY::forest::unregisterDDEdges")[0]
    g = Graph(fn)
    R.functions.add(fn["inst"])
    for member in ("MEDDLY::dd_edge::node", "MEDDLY::dd_edge::parentFID"):
        st = g.where(lambda n: n.kind == "store" and n.ev["member"] == member)
        iid = "unregisterDDEdges zeroes %s" % member.split("::")[-1]
        good = st and all(s.ev["rhs"].strip() == "0" for s in st)
        # the store must be inside the loop over `roots` (reachable from itself)
        if good and all(s.id in g.reach([x for x, _ in s.succ]) for s in st):
            R.ok(iid, where(fn, st[0].line))
        else:
            R.fail(iid, where(fn), Finding(R.rule, fn["file"], fn["q"], member, "every registered edge must be reset (field %s = 0) when its forest dies" % member, fn["line"]))
    R.require_floor(5, "registry obligations")
    return R


REGISTRY_WRITERS = {
    # function -> allowed mutations of forest::all_forests, each with the reason it is harmless for "ids are never reused"
    "MEDDLY::forest::initStatics": {"clear", "push_back"},      # fresh registry, slot 0 reserved (id 0 = no forest)
    "MEDDLY::forest::freeStatics": {"clear"},                   # library cleanup
    "MEDDLY::forest::registerForest": {"push_back"},            # ids are vector indexes: append only
    "MEDDLY::forest::unregisterForest": {"store-null"},         # slot is nulled, never refilled
}


def rule_registry(P):
    R = RuleResult("life.registry-append-only", "forest::all_forests is only appended to, nulled per slot, or cleared at library init/cleanup: forest ids are never reused")
    seen_sites = 0
    for f in P.fns.values():
        if not f.get("cfg"):
            continue
        muts = []
        for b in f["cfg"]["blocks"]:
            for ev in b["ev"]:
                if ev["k"] == "store" and ev["member"] == "MEDDLY::forest::all_forests":
                    muts.append(("store-null" if "nullptr" in ev["rhs"] else "store", ev["line"]))
                elif ev["k"] == "call" and ev.get("recvq") == "MEDDLY::forest::all_forests" and not ev.get("sig", "").endswith(" const"):
                    name = ev["q"].split("::")[-1]
                    if name in ("operator[]", "size", "begin", "end", "empty", "at"):
                        continue   # non-const overloads of read accessors chosen by overload resolution; writes through [] are 'store' events
                    muts.append((name, ev["line"]))
        for kind, line in muts:
            seen_sites += 1
            R.functions.add(f["inst"])
            allowed = REGISTRY_WRITERS.get(f["q"], set())
            iid = "%s: all_forests.%s" % (f["q"], kind)
            if kind in allowed:
                R.ok(iid, where(f, line))
            else:
                R.fail(iid, where(f, line), Finding(R.rule, f["file"], f["q"], "all_forests." + kind,
                       "the forest registry is modified outside the append/null/clear protocol (a refilled or removed slot lets a forest id be reused)", line))
    fn = P.find("MEDDLY::forest::registerForest")[0]
    g = Graph(fn)
    st = g.where(lambda n: n.kind == "store" and n.ev["member"] == "MEDDLY::forest::fid")
    iid = "registerForest: fid is the index of the appended slot"
    pb = g.calls("vector::push_back") or g.where(lambda n: n.kind == "call" and n.ev["q"].endswith("::push_back"))
    if st and pb and all("all_forests" in s.ev["rhs"] and "size" in s.ev["rhs"] for s in st) and not g.path(g.entry, lambda n: n in pb, avoid=lambda n: n in st):
        R.ok(iid, where(fn, st[0].line))
    else:
        R.fail(iid, where(fn), Finding(R.rule, fn["file"], fn["q"], "fid=all_forests.size()", "a new forest's id must be the size of the registry before it is appended", fn["line"]))
    R.require_floor(6, "mutation sites of forest::all_forests")
    return R


def rule_library(P):
    R = RuleResult("life.library", "initializeLibrary/cleanupLibrary pair every static set-up with its tear-down, in dependency order; domain::destroy marks before deleting")
    ini = P.find("MEDDLY::initializer_list::initializeLibrary")[0]
    cln = P.find("MEDDLY::initializer_list::cleanupLibrary")[0]
    gi, gc = Graph(ini), Graph(cln)
    R.functions |= {ini["inst"], cln["inst"]}
    pairs = [("unpacked_node::initStatics", "unpacked_node::doneStatics"), ("ct_vector::initStatics", "ct_vector::doneStatics"),
             ("ct_entry_type::initStatics", "ct_entry_type::doneStatics"), ("operation::initializeStatics", "operation::destroyAllOps"),
             ("domain::initDomList", "domain::deleteDomList")]
    # any X::initStatics called by initializeLibrary must have a counterpart in the table (new statics need a reviewed pairing)
    for n in gi.where(lambda n: n.kind == "call" and n.ev["q"].split("::")[-1] in ("initStatics", "initializeStatics", "initDomList")):
        if not any(qmatch(n.ev["q"], a) for a, _ in pairs):
            R.fail("unpaired " + n.ev["q"], where(ini, n.line), Finding(R.rule, ini["file"], ini["q"], n.ev["q"], "static initialiser without a recorded clean-up counterpart", n.line))
    for a, b in pairs:
        must_call(R, P, ini, [a], "library set-up")
        must_call(R, P, cln, [b], "library tear-down of what %s set up" % a)
    ordered(R, P, cln, "domain::markDomList", "operation::destroyAllOps", "forests are marked (edges detached) before operations are destroyed")
    ordered(R, P, cln, "operation::destroyAllOps", "domain::deleteDomList", "operations (and their tables) must be gone before the forests they mention are deleted")
    ordered(R, P, cln, "domain::deleteDomList", "ct_entry_type::doneStatics", "entry types outlive the forests that invalidate them")
    ordered(R, P, cln, "domain::deleteDomList", "unpacked_node::doneStatics", "forest destruction recycles unpacked nodes into the static lists")
    # isRunning toggles
    for fn, g, val in ((ini, gi, "true"), (cln, gc, "false")):
        st = g.where(lambda n: n.kind == "store" and n.ev["member"] == "MEDDLY::initializer_list::isRunning")
        iid = "%s sets isRunning=%s on every normal path" % (fn["q"], val)
        R.paths += 1
        if st and all(s.ev["rhs"] == val for s in st) and not g.path(g.entry, lambda n: n.id == g.exit, avoid=lambda n: n in st):
            R.ok(iid, where(fn, st[0].line))
        else:
            R.fail(iid, where(fn), Finding(R.rule, fn["file"], fn["q"], "isRunning=" + val, "library state flag not updated: repeated initialise/cleanup would misbehave", fn["line"]))
    # both refuse to run in the wrong state
    for fn, g, code in ((ini, gi, "ALREADY_INITIALIZED"), (cln, gc, "UNINITIALIZED")):
        tests = g.throwing_tests(lambda c: "MEDDLY::initializer_list::libraryIsRunning" in c["calls"] or "isRunning" in c["refs"], code)
        iid = "%s throws %s in the wrong state" % (fn["q"], code)
        if tests:
            R.ok(iid, where(fn, tests[0][2].line))
        else:
            R.fail(iid, where(fn), Finding(R.rule, fn["file"], fn["q"], code, "missing state check", fn["line"]))
    dd = P.find("MEDDLY::domain::destroy")[0]
    g = Graph(dd)
    R.functions.add(dd["inst"])
    dels = g.where(lambda n: n.kind == "delete")
    iid = "domain::destroy marks the domain before deleting it"
    R.paths += 1
    if dels and not g.path(g.entry, lambda n: n.kind == "delete", avoid=lambda n: _is_call(n, "domain::markForDeletion")):
        R.ok(iid, where(dd, dels[0].line))
    else:
        R.fail(iid, where(dd), Finding(R.rule, dd["file"], dd["q"], "markForDeletion<delete", "a domain must be marked (its forests' edges detached) before it is deleted", dd["line"]))
    dt = P.find("MEDDLY::domain::~domain")[0]
    g = Graph(dt)
    R.functions.add(dt["inst"])
    iid = "~domain deletes each registered forest"
    d2 = g.where(lambda n: n.kind == "delete" and n.id in g.reach([x for x, _ in n.succ]))
    if d2 and g.calls("forest::getForestWithID"):
        R.ok(iid, where(dt, d2[0].line))
    else:
        R.fail(iid, where(dt), Finding(R.rule, dt["file"], dt["q"], "delete forest", "destroying a domain must destroy its forests (looked up by id, in a loop)", dt["line"]))
    R.require_floor(18, "library life-cycle obligations")
    return R


def rule_entry_types(P):
    """every ct_entry_type created by an operation is marked for destruction by that operation's
    destructor (new style, stored in a member) or handed to operation::registerEntryType (old style)"""
    R = RuleResult("life.entrytype-marked", "each `new ct_entry_type` is paired with markForDestroy in the owner's destructor or with registerEntryType")
    op_classes = P.subclasses("MEDDLY::operation")
    by_class_dtor = {}
    for f in P.fns.values():
        if f.get("dtor"):
            by_class_dtor.setdefault(f["cls"], []).append(f)
    for f in sorted(P.fns.values(), key=lambda f: (f["file"], f["line"], f["inst"])):
        if not f.get("cfg") or not (f.get("ctor") or f.get("class") in op_classes):
            continue
        g = None
        for b in f["cfg"]["blocks"]:
            for ev in b["ev"]:
                member = None
                if ev["k"] == "store" and ev.get("rhsnew") == "ct_entry_type":
                    member = ev["member"]
                elif ev["k"] == "init" and ev.get("member") and ev.get("rhsnew") == "ct_entry_type":
                    member = f["cls"] + "::" + ev["member"]
                if member is None:
                    continue
                R.functions.add(f["inst"])
                cls = member.rsplit("::", 1)[0]
                iid = "%s (created in %s)" % (member, f["inst"])
                dtors = by_class_dtor.get(cls, [])
                okay = False
                for d in dtors:
                    gd = Graph(d)
                    R.paths += 1
                    marks = gd.where(lambda n: _is_call(n, "ct_entry_type::markForDestroy") and n.ev.get("recvq") == member)
                    if not marks:
                        continue
                    # a path to the exit that skips the mark may only do so through a null test of this member
                    p = gd.path(gd.entry, lambda n: n.id == gd.exit,
                                avoid=lambda n: n in marks or (n.kind == "branch" and n.cond and member.split("::")[-1] in n.cond["refs"]))
                    if not p:
                        okay = True
                if okay:
                    R.ok(iid, where(f, ev["line"]))
                else:
                    R.fail(iid, where(f, ev["line"]), Finding(R.rule, f["file"], base_name(f["q"]), base_name(member),
                           "entry type is never marked for destruction by %s's destructor: its cache entries outlive the operation and the forests" % cls, ev["line"], inst=f["inst"]))
        # old style: `new ct_entry_type` bound to a local, then handed to operation::registerEntryType:
        # every normal path from the allocation to the exit passes a registerEntryType call
        g = Graph(f)
        stored_lines = {n.ev["line"] for n in g.nodes if n.kind in ("store", "init") and n.ev.get("rhsnew") == "ct_entry_type"}
        for n in g.nodes:
            if n.kind != "new" or n.ev.get("rec") != "ct_entry_type" or n.ev["line"] in stored_lines:
                continue
            R.functions.add(f["inst"])
            R.paths += 1
            iid = "%s registers the entry type allocated at its `new` #%d" % (f["inst"], sum(1 for m in g.nodes[: n.id] if m.kind == "new"))
            p = g.path(n, lambda m: m.id == g.exit, avoid=lambda m: _is_call(m, "operation::registerEntryType"))
            if p:
                R.fail(iid, where(f, n.line), Finding(R.rule, f["file"], base_name(f["q"]), "registerEntryType",
                       "a ct_entry_type is created but neither stored in a member nor registered with the operation on some path", n.line, show_path(p), inst=f["inst"]))
            else:
                R.ok(iid, where(f, n.line))
    # the base destructor marks the registered ones
    od = P.find("MEDDLY::operation::~operation")[0]
    g = Graph(od)
    iid = "~operation marks every registered entry type and unregisters the operation"
    if g.calls("ct_entry_type::markForDestroy") and g.calls("operation::unregisterOperation"):
        R.ok(iid, where(od))
    else:
        R.fail(iid, where(od), Finding(R.rule, od["file"], od["q"], "markForDestroy", "registered entry types are not marked when the operation dies", od["line"]))
    R.require_floor(40, "entry types created by operations")
    return R


def rule_factory_remove(P):
    R = RuleResult("life.factory-forgets", "operation destructors remove the operation from its factory cache, so a factory never returns a destroyed operation")
    for cls, fac in (("MEDDLY::binary_operation", "binary_factory::remove"), ("MEDDLY::unary_operation", "unary_factory::remove"), ("MEDDLY::ternary_operation", None)):
        ds = P.find(cls + "::~" + cls.split("::")[-1], required=(fac is not None))
        for d in ds:
            g = Graph(d)
            R.functions.add(d["inst"])
            R.paths += 1
            if fac is None:
                continue
            calls = g.calls(fac)
            iid = "%s calls %s unless it has no factory" % (d["q"], fac)
            p = g.path(g.entry, lambda n: n.id == g.exit, avoid=lambda n: n in calls or (n.kind == "branch" and n.cond and "factory" in n.cond["refs"]))
            if calls and not p:
                R.ok(iid, where(d, calls[0].line))
            else:
                R.fail(iid, where(d), Finding(R.rule, d["file"], d["q"], fac, "destroyed operation stays in its factory's cache", d["line"], show_path(p) if p else None))
    R.require_floor(2, "operation base destructors")
    return R


def rule_op_registration(P):
    """operation::destroyAllWithForest finds the operations of a dying forest through their forest list: an operation base-class
    constructor must register the operation in every forest it stores, and the destructor must unregister the same ones"""
    R = RuleResult("life.op-registers-forests", "every constructor of the operation base classes registers the operation in each forest it stores (registerInForest), and the destructor unregisters each: destroying any one of those forests then destroys the operation")
    bases = ("binary_operation", "unary_operation", "ternary_operation", "saturation_operation")
    n = 0
    for b in bases:
        ctors = [f for f in P.by_q.get("MEDDLY::%s::%s" % (b, b), []) if f.get("cfg")]
        dtors = [f for f in P.by_q.get("MEDDLY::%s::~%s" % (b, b), []) if f.get("cfg")]
        stored_any = set()
        for f in ctors:
            g = Graph(f)
            R.functions.add(f["inst"])
            fparams = {p["name"] for p in f["params"] if p["rec"] == "forest"}
            stored = {}
            for nd in g.nodes:
                if nd.kind == "store" and nd.ev["rhs"].strip() in fparams and nd.ev["base"] == "this":
                    stored[nd.ev["member"].split("::")[-1]] = nd
                if nd.kind == "init" and nd.ev.get("member") and nd.ev["text"].strip() in fparams:
                    stored[nd.ev["member"]] = nd
            for m, nd in sorted(stored.items()):
                n += 1
                stored_any.add(m)
                R.paths += 1
                hit = lambda x, m=m: x.kind == "call" and qmatch(x.ev["q"], "operation::registerInForest") and [a.replace("this->", "") for a in x.ev["args"]] == [m]
                p = g.path(g.entry, lambda x: x.id == g.exit, avoid=hit)
                iid = "%s%s registers in %s" % (f["q"].replace("MEDDLY::", ""), f["sig"][:40], m)
                if g.where(hit) and not p:
                    R.ok(iid, where(f, nd.line))
                else:
                    R.fail(iid, where(f, nd.line), Finding(R.rule, f["file"], f["q"] + f["sig"], "registerInForest(%s)" % m,
                           "the operation stores forest %s but does not register itself there: destroying only that forest leaves the operation alive (in its factory, with a dangling forest pointer)" % m, nd.line, show_path(p) if p else None))
        for d in dtors:
            g = Graph(d)
            R.functions.add(d["inst"])
            for m in sorted(stored_any):
                n += 1
                hit = lambda x, m=m: x.kind == "call" and qmatch(x.ev["q"], "operation::unregisterInForest") and [a.replace("this->", "") for a in x.ev["args"]] == [m]
                iid = "%s unregisters from %s" % (d["q"].replace("MEDDLY::", ""), m)
                if g.where(hit) and not g.path(g.entry, lambda x: x.id == g.exit, avoid=hit):
                    R.ok(iid, where(d))
                else:
                    R.fail(iid, where(d), Finding(R.rule, d["file"], d["q"], "unregisterInForest(%s)" % m, "the destructor does not unregister the operation from forest %s" % m, d["line"]))
    R.require_floor(18, "forest registrations of the operation base classes")
    return R


RULES = [rule_forest_dtor, rule_unregister, rule_registry, rule_library, rule_entry_types, rule_factory_remove, rule_op_registration]



M = "MEDDLY::"


def rule_copy_memberwise(P):
    """copy constructors and copy assignments that copy member by member take each member from the member of the same name of the source
    (variable_order's two maps, minterm's domain and kind, …): `var2level.assign(order.level2var…)` compiles and is right for every
    order that is its own inverse"""
    import re
    R = RuleResult("life.copy-memberwise", "in every copy constructor / copy assignment, a member that is copied from the source object is copied from the source's member of the same name")
    seen = set()
    for f in sorted(P.fns.values(), key=lambda f: (f["file"], f["line"], f["inst"])):
        if not f.get("cfg") or (f["file"], f["line"]) in seen:
            continue
        ps = f.get("params", [])
        nm = f["q"].split("::")[-1]
        cls = f.get("cls") or ""
        if len(ps) != 1 or not (f.get("ctor") or nm == "operator=") or not cls:
            continue
        if not re.search(r"const\s+(class\s+|struct\s+)?%s\s*&" % re.escape(cls), f.get("sig", "")):
            continue
        seen.add((f["file"], f["line"]))
        p_ = re.escape(ps[0]["name"])
        pairs = []
        for b in f["cfg"]["blocks"]:
            for e in b["ev"]:
                if e["k"] == "store":
                    m = re.fullmatch(r"%s(?:\.|->)(\w+)" % p_, re.sub(r"\s+", "", e.get("rhs", "")))
                    if m:
                        pairs.append((e["member"].split("::")[-1], m.group(1), e["line"]))
                elif e["k"] == "init" and e.get("member"):
                    m = re.fullmatch(r"%s(?:\.|->)(\w+)" % p_, re.sub(r"\s+", "", e.get("text", "")))
                    if m:
                        pairs.append((e["member"], m.group(1), e["line"]))
                elif e["k"] == "call":
                    m1 = re.fullmatch(r"this->(\w+)", str(e.get("recv") or ""))
                    if m1:
                        for a in e.get("args") or []:
                            for m in re.finditer(r"(?<!\w)%s(?:\.|->)(\w+)(?=\.(?:begin|end|data|size)\(\)|$)" % p_, re.sub(r"\s+", "", a)):
                                pairs.append((m1.group(1), m.group(1), e["line"]))
        if not pairs:
            continue
        R.functions.add(f["inst"])
        for dst, src, line in sorted(set(pairs)):
            R.paths += 1
            iid = "%s%s: %s ← source.%s" % (base_name(f["q"]).replace(M, ""), f["sig"][:30], dst, src)
            if dst == src:
                R.ok(iid, where(f, line))
            else:
                R.fail(iid, where(f, line), Finding(R.rule, f["file"], base_name(f["q"]), "%s<-%s" % (dst, src),
                       "member `%s` of the copy is filled from the source's `%s`: the copy is wrong whenever the two differ" % (dst, src), line))
    R.require_floor(5, "member-wise copies")
    return R
