"""guard — must-check dominance at entry points and partial operations (DESIGN §2.4).

Generic rule: every path from the entry of f to sink s passes a branch whose condition tests the
right quantity and one of whose arms goes straight to `throw error(<documented code>)`.
Instances are enumerated from the repository (constructors of operation classes, `/` and `%` in
the arithmetic policies, the terminal encoder, the value→edge encoder, the apply() wrappers, the
iterator dereference) — each confirmed by reading."""
import re
from cfg import Graph, qmatch, show_path
from core import Finding, RuleResult
from frontend import AnalysisBroken, where, base_name

M = "MEDDLY::"


def _calls_on_all_paths(g, names):
    """True when every normal path entry→exit passes a call to one of names"""
    hit = lambda n: n.kind in ("call", "construct") and any(qmatch(base_name(n.ev["q"]), nm) for nm in names)
    if not g.where(hit):
        return False
    return g.path(g.entry, lambda n: n.id == g.exit, avoid=hit) is None


class CtorChecks:
    """does constructor C (or a base constructor it runs) call `check` on all normal paths?"""

    def __init__(self, P):
        self.P = P
        self.memo = {}

    def passes(self, f, names):
        k = (f["inst"], f["sig"], tuple(names))
        if k in self.memo:
            return self.memo[k]
        self.memo[k] = False
        g = Graph(f)
        ok = _calls_on_all_paths(g, names)
        if not ok:
            for n in g.nodes:
                if n.kind == "construct" and n.ev["q"] != f["q"]:
                    for b in self.P.by_q.get(n.ev["q"], []):
                        if b.get("ctor") and b["sig"] == n.ev.get("sig") and b["cls"] != f["cls"] and self.is_base(f, b):
                            if self.passes(b, names):
                                ok = True
        self.memo[k] = ok
        return ok

    def is_base(self, f, b):
        bases = set()
        stack = [base_name(f["cls"])]
        while stack:
            c = stack.pop()
            for x in self.P.classes.get(c, []):
                if x not in bases:
                    bases.add(x)
                    stack.append(x)
        return base_name(b["cls"]) in bases


# classes whose relation/set shape is validated elsewhere; each line: why the constructor need not do it
RELATION_CHECK_ELSEWHERE = {
    M + "prepostplus_evplus": "PRE_PLUS/POST_PLUS factory functions reject wrong set/relation shapes before constructing (prepostplus.cc)",
    M + "preplus_evplus": "same factory check as prepostplus_evplus",
    M + "postplus_evplus": "same factory check as prepostplus_evplus",
    M + "image_op_evplus2": "abstract helper base; the only leaf (tcXrel_evplus) calls checkRelations",
    M + "cycle_EV2EV": "labeling check + explicit isForRelations tests throwing TYPE_MISMATCH in the constructor body",
}


def rule_ctor_checks(P):
    R = RuleResult("guard.ctor-checks", "every operation class over ≥2 forests validates domains (DOMAIN_MISMATCH) and set/relation shape (TYPE_MISMATCH) in its constructor chain on all normal paths")
    cc = CtorChecks(P)
    seen = set()
    for base, nforest_sig in ((M + "binary_operation", None), (M + "unary_operation", "forest *,class MEDDLY::forest *")):
        subs = P.subclasses(base)
        # leaf classes only: a class used as a constructor base by another class delegates the duty downwards
        used_as_base = set()
        for f in P.fns.values():
            if f.get("ctor") and f.get("class") in subs and f.get("cfg"):
                for b in f["cfg"]["blocks"]:
                    for ev in b["ev"]:
                        if ev["k"] == "construct" and base_name(ev["q"]).rsplit("::", 1)[0] in subs and base_name(ev["q"]) != base_name(f["q"]):
                            used_as_base.add(base_name(ev["q"]).rsplit("::", 1)[0])
        for f in sorted(P.fns.values(), key=lambda f: (f["file"], f["line"], f["inst"])):
            if not f.get("ctor") or f.get("class") not in subs or f["class"] == base:
                continue
            bn = base_name(f["cls"])
            if bn in used_as_base:
                continue
            # how many forests does the root base constructor receive?
            if nforest_sig is not None:
                root_two = False
                stack = [f]
                vis = set()
                while stack:
                    x = stack.pop()
                    if x["inst"] + x["sig"] in vis:
                        continue
                    vis.add(x["inst"] + x["sig"])
                    for b in x["cfg"]["blocks"]:
                        for ev in b["ev"]:
                            if ev["k"] == "construct":
                                if ev["q"] == base + "::unary_operation":
                                    if nforest_sig in ev.get("sig", "") and (len(ev["args"]) < 2 or ev["args"][0] != ev["args"][1]):
                                        root_two = True
                                else:
                                    for c in P.by_q.get(ev["q"], []):
                                        if c.get("ctor") and c["sig"] == ev.get("sig") and c.get("class") in subs:
                                            stack.append(c)
                if not root_two:
                    R.notes.append("single-forest operation (scalar result or same forest twice), nothing to cross-check: %s" % f["inst"].replace(M, ""))
                    continue
            key = (f["inst"], f["sig"])
            if key in seen:
                continue
            seen.add(key)
            R.functions.add(f["inst"])
            R.paths += 2
            iid = "%s validates domains" % f["inst"].replace(M, "")
            if cc.passes(f, ["checkDomains"]):
                R.ok(iid, where(f))
            else:
                R.fail(iid, where(f), Finding(R.rule, f["file"], base_name(f["q"]), "checkDomains",
                       "operands from different domains are not rejected: no checkDomains on some normal path of the constructor chain", f["line"], inst=f["inst"]))
            iid = "%s validates set/relation shape" % f["inst"].replace(M, "")
            if bn in RELATION_CHECK_ELSEWHERE:
                R.notes.append("relation shape checked elsewhere for %s: %s" % (bn.replace(M, ""), RELATION_CHECK_ELSEWHERE[bn]))
            elif cc.passes(f, ["checkAllRelations", "checkRelations"]):
                R.ok(iid, where(f))
            else:
                R.fail(iid, where(f), Finding(R.rule, f["file"], base_name(f["q"]), "checkRelations",
                       "set/relation mismatch is not rejected: no checkAllRelations/checkRelations on some normal path of the constructor chain", f["line"], inst=f["inst"]))
    # the helpers themselves throw the documented codes
    for cls in ("binary_operation", "unary_operation"):
        for name, code in (("checkDomains", "DOMAIN_MISMATCH"), ("checkAllRelations", "TYPE_MISMATCH"), ("checkRelations", "TYPE_MISMATCH"),
                           ("checkAllLabelings", "TYPE_MISMATCH"), ("checkLabelings", "TYPE_MISMATCH"), ("checkAllRanges", "TYPE_MISMATCH")):
            for h in P.find(M + cls + "::" + name, required=False):
                g = Graph(h)
                R.functions.add(h["inst"])
                th = [n for n in g.nodes if n.kind == "throw"]
                iid = "%s::%s%s throws %s" % (cls, name, h["sig"][:30], code)
                # every comparison arm of the `||` chain leads to the throw
                tests = g.throwing_tests(lambda c: c.get("op") in ("!=", "==", "truth"), code)
                if th and all(t.ev["code"] == code for t in th) and len(tests) >= 1:
                    R.ok(iid, where(h, th[0].line), tests=len(tests))
                else:
                    R.fail(iid, where(h), Finding(R.rule, h["file"], h["q"], code, "validation helper does not throw %s from every comparison" % code, h["line"]))
    R.require_floor(90, "constructor-chain obligations")
    return R


def _zero_arm(cond):
    """index of the successor taken when the tested quantity is zero, and the refs of that quantity; None if not a zero test"""
    op = cond.get("op")
    neg = cond.get("neg", False)
    if op in ("==", "!="):
        l, r = cond["l"], cond["r"]
        if l.get("const") == 0 and "const" not in r:
            q = r
        elif r.get("const") == 0 and "const" not in l:
            q = l
        else:
            # comparison against a named zero such as OMEGA_ZERO
            if any(x in ("OMEGA_ZERO",) for x in l["refs"]):
                q = r
            elif any(x in ("OMEGA_ZERO",) for x in r["refs"]):
                q = l
            else:
                return None
        zero_when_true = (op == "==") != neg
        return (0 if zero_when_true else 1), q["refs"]
    if op == "truth":
        zero_when_true = neg
        return (0 if zero_when_true else 1), cond["l"]["refs"]
    return None


def rule_div_zero(P):
    R = RuleResult("guard.div-zero", "in arith_div.cc / arith_mod.cc every `/` and `%` on an operand value is dominated by a test of the divisor whose zero arm throws DIVIDE_BY_ZERO; terminal-level division policies test OMEGA_ZERO likewise")
    sites = 0
    for f in sorted(P.fns.values(), key=lambda f: (f["file"], f["line"], f["inst"])):
        if f["file"] not in ("operations/arith_div.cc", "operations/arith_mod.cc") or not f.get("cfg"):
            continue
        g = Graph(f)
        for d in g.nodes:
            if d.kind != "div" or d.ev.get("rhslit"):
                continue
            sites += 1
            R.functions.add(f["inst"])
            R.paths += 1
            want = set(d.ev.get("rhsrefs", []))
            guards = []
            for n in g.nodes:
                if n.kind != "branch" or not n.cond or len(n.succ) < 2:
                    continue
                z = _zero_arm(n.cond)
                if not z:
                    continue
                idx, refs = z
                if not (set(refs) & want):
                    continue
                tgt = [s for s, i in n.succ if i == idx]
                t = g.leads_to_throw(tgt[0]) if tgt else None
                if t is not None and t.ev["code"] == "DIVIDE_BY_ZERO":
                    guards.append(n)
            iid = "%s: `%s %s %s`" % (f["inst"].replace(M, ""), d.ev["lhs"], d.ev["op"], d.ev["rhs"])
            p = g.path(g.entry, lambda n: n.id == d.id, avoid=lambda n: n in guards)
            if guards and not p:
                R.ok(iid, where(f, d.line))
            else:
                R.fail(iid, where(f, d.line), Finding(R.rule, f["file"], base_name(f["q"]), "%s %s" % (d.ev["op"], d.ev["rhs"]),
                       "division by an operand value that was not tested against zero (DIVIDE_BY_ZERO) on some path", d.line, show_path(p) if p else None, inst=f["inst"]))
        # handle-level apply of EV* division: `if (OMEGA_ZERO == b) throw`
        if base_name(f["q"]).endswith("_div::apply") or base_name(f["q"]).endswith("_mod::apply"):
            params_b = [n for n in g.nodes if n.kind == "branch" and n.cond and "OMEGA_ZERO" in n.cond["refs"]]
            if params_b:
                sites += 1
                R.paths += 1
                iid = "%s%s: zero divisor terminal rejected first" % (f["inst"].replace(M, ""), f["sig"][:40])
                tests = g.throwing_tests(lambda c: "OMEGA_ZERO" in c["refs"], "DIVIDE_BY_ZERO")
                stores_before = g.path(g.entry, lambda n: n.kind in ("store", "ret"), avoid=lambda n: any(n is t[0] for t in tests)) if tests else True
                if tests and not stores_before:
                    R.ok(iid, where(f, tests[0][2].line))
                else:
                    # a function that compares with OMEGA_ZERO only for the numerator is fine if it has no zero-divisor case; report only when it has a `b`-named divisor
                    if any("b" in n.cond["refs"] or "bn" in n.cond["refs"] for n in params_b):
                        R.fail(iid, where(f), Finding(R.rule, f["file"], base_name(f["q"]), "OMEGA_ZERO divisor", "zero divisor terminal is not rejected before a result is produced", f["line"], inst=f["inst"]))
    R.require_floor(11, "division sites in arith_div.cc/arith_mod.cc")
    return R


def rule_sub_infinity(P):
    R = RuleResult("guard.sub-infinity", "EV+ subtraction rejects an infinite subtrahend (SUBTRACT_INFINITY) before producing a result")
    fs = [f for f in P.fns.values() if base_name(f["q"]) == M + "evplus_minus::apply" and "node_handle" in f["sig"]]
    for f in sorted(fs, key=lambda f: f["inst"]):
        g = Graph(f)
        R.functions.add(f["inst"])
        R.paths += 1
        tests = g.throwing_tests(lambda c: "OMEGA_INFINITY" in c["refs"] and "b" in c["refs"], "SUBTRACT_INFINITY")
        iid = "%s rejects b == OMEGA_INFINITY first" % f["inst"].replace(M, "")
        p = g.path(g.entry, lambda n: n.kind in ("store", "ret") or n.id == g.exit, avoid=lambda n: any(n is t[0] for t in tests))
        # parameters are plain variables: a store to `c` is not a field store, so the exit is the sink
        if tests and not p:
            R.ok(iid, where(f, tests[0][2].line))
        else:
            R.fail(iid, where(f), Finding(R.rule, f["file"], base_name(f["q"]), "SUBTRACT_INFINITY", "x - infinity is not rejected on some path", f["line"], show_path(p) if p else None, inst=f["inst"]))
    R.require_floor(2, "evplus_minus::apply instantiations")
    return R


def rule_int_overflow(P):
    R = RuleResult("guard.int-overflow", "terminal::getIntegerHandle tests the value against intMin() and intMax() (VALUE_OVERFLOW) before setting the flag bit; intMin/intMax are the 31-bit (63-bit) bounds")
    f = P.find(M + "terminal::getIntegerHandle")[0]
    g = Graph(f)
    R.functions.add(f["inst"])
    packs = [n for n in g.nodes if n.kind == "bin" and n.ev["op"] == "|"]
    if not packs:
        raise AnalysisBroken("guard.int-overflow: no flag-bit packing (`|`) found in terminal::getIntegerHandle")
    for bound in ("intMin", "intMax"):
        tests = g.throwing_tests(lambda c: (M + "terminal::" + bound) in c["calls"], "VALUE_OVERFLOW")
        iid = "getIntegerHandle: %s test dominates the packing" % bound
        R.paths += 1
        p = g.path(g.entry, lambda n: n in packs, avoid=lambda n: any(n is t[0] for t in tests))
        if tests and not p:
            R.ok(iid, where(f, tests[0][2].line))
        else:
            R.fail(iid, where(f), Finding(R.rule, f["file"], f["q"], bound, "an integer outside the terminal range can be packed without VALUE_OVERFLOW (missing/by-passable %s test)" % bound, f["line"], show_path(p) if p else None))
    # comparison direction: value < intMin, value > intMax
    for bound, ops in (("intMin", ("<",)), ("intMax", (">",))):
        br = [n for n in g.nodes if n.kind == "branch" and n.cond and (M + "terminal::" + bound) in n.cond["calls"]]
        iid = "getIntegerHandle: compares value %s %s()" % (ops[0], bound)
        good = br and all((n.cond.get("op") in ops and bound in " ".join(n.cond["r"]["refs"])) or
                          (n.cond.get("op") in tuple({"<": ">", ">": "<"}[o] for o in ops) and bound in " ".join(n.cond["l"]["refs"])) for n in br) and not any(n.cond.get("neg") for n in br)
        if good:
            R.ok(iid, where(f, br[0].line))
        else:
            R.fail(iid, where(f), Finding(R.rule, f["file"], f["q"], bound + "-direction", "range comparison against %s has the wrong direction/strictness" % bound, f["line"]))
    # the quantity compared is the stored (long) value itself, not a copy already narrowed to the handle type
    for bound in ("intMin", "intMax"):
        br = [n for n in g.nodes if n.kind == "branch" and n.cond and (M + "terminal::" + bound) in n.cond["calls"] and n.cond.get("op") in ("<", ">", "<=", ">=")]
        iid = "getIntegerHandle: the %s test reads the full-width value t_integer" % bound
        ok = bool(br)
        for n in br:
            side = n.cond["l"] if bound in " ".join(n.cond["r"]["refs"]) else n.cond["r"]
            vals = [x for x in side["refs"] if x not in ("this", "")]
            if vals != ["t_integer"]:
                ok = False
        if ok:
            R.ok(iid, where(f, br[0].line))
        else:
            R.fail(iid, where(f), Finding(R.rule, f["file"], f["q"], bound + "-operand",
                   "the range test against %s() does not read the stored long value t_integer directly (a value narrowed to the 32-bit handle type before the test wraps around and passes)" % bound, f["line"]))
    # the bounds themselves
    W = {"4": 32, "8": 64}
    for bound, val in (("intMin", lambda w: -(1 << (w - 2))), ("intMax", lambda w: (1 << (w - 2)) - 1)):
        h = P.find(M + "terminal::" + bound)[0]
        gh = Graph(h)
        R.functions.add(h["inst"])
        live = gh.reach([gh.entry])
        rets = [n for n in gh.nodes if n.kind == "ret" and n.id in live]
        consts = sorted(n.ev.get("const") for n in rets if n.ev.get("const") is not None)
        if not consts:
            # not a literal: fold the returned expression over 32-bit handles (msb(), intMin(), intMax(), shifts, ~, unary minus, casts)
            folded = [_fold_handle_expr(P, n.ev.get("text") or "") for n in rets]
            if folded and all(v is not None for v in folded):
                consts = sorted(folded)
        iid = "terminal::%s folds to the documented bound" % bound
        # with sizeof(node_handle)==4 the live branch returns the 32-bit bound; clang's CFG prunes the dead arm or keeps both
        if consts == [val(32)]:
            R.ok(iid, where(h), consts=consts)
        else:
            R.fail(iid, where(h), Finding(R.rule, h["file"], h["q"], "bound", "%s returns %s, expected %d (31-bit signed terminals)" % (bound, consts, val(32)), h["line"]))
    R.require_floor(6, "overflow-guard obligations")
    return R


def _fold_handle_expr(P, text, depth=0):
    """value of a constant expression over node_handle (32-bit two's complement), or None when it is not one of the recognised shapes"""
    if depth > 4:
        return None
    t = re.sub(r"\s+", "", text.replace("this->", "").replace("MEDDLY::", "").replace("terminal::", ""))
    t = t.replace("sizeof(node_handle)", "4").replace("node_handle(", "(")
    t = re.sub(r"(?<=\d)[uUlL]+", "", t)
    for fn in ("msb", "intMin", "intMax"):
        if fn + "()" in t:
            if fn == "msb":
                v = -(1 << 31)
            else:
                h = P.find(M + "terminal::" + fn)[0]
                gh = Graph(h)
                live = gh.reach([gh.entry])
                rets = [n for n in gh.nodes if n.kind == "ret" and n.id in live]
                vs = set()
                for n in rets:
                    vs.add(n.ev["const"] if n.ev.get("const") is not None else _fold_handle_expr(P, n.ev.get("text") or "", depth + 1))
                if len(vs) != 1 or None in vs:
                    return None
                v = vs.pop()
            t = t.replace(fn + "()", "(%d)" % v)
    if not re.fullmatch(r"[0-9()+\-*~|&<>]+", t):
        return None
    try:
        v = eval(t, {"__builtins__": {}}, {})
    except Exception:
        return None
    v &= 0xFFFFFFFF
    return v - (1 << 32) if v & 0x80000000 else v


def rule_edge_for_value(P):
    R = RuleResult("guard.value-type", "forest::getEdgeForValue rejects a value of the wrong range type (TYPE_MISMATCH) before anything is encoded")
    for f in P.find(M + "forest::getEdgeForValue"):
        g = Graph(f)
        R.functions.add(f["inst"])
        R.paths += 1
        tests = g.throwing_tests(lambda c: (M + "rangeval::hasType") in c["calls"], "TYPE_MISMATCH")
        iid = "getEdgeForValue%s: hasType(rangeType) test first" % f["sig"][:40]
        sink = lambda n: (n.kind == "call" and (qmatch(n.ev["q"], "terminal::getHandle") or n.ev["q"].startswith(M + "edge_value::set"))) or n.id == g.exit
        p = g.path(g.entry, sink, avoid=lambda n: any(n is t[0] for t in tests))
        if tests and not p:
            R.ok(iid, where(f, tests[0][2].line))
        else:
            R.fail(iid, where(f), Finding(R.rule, f["file"], f["q"], "TYPE_MISMATCH", "a value whose type does not match the forest's range can be encoded", f["line"], show_path(p) if p else None))
    R.require_floor(1, "getEdgeForValue")
    return R


def rule_zero_of_stored(P):
    """EV*: the transparent edge <0, OMEGA_ZERO> must be chosen by testing the edge value *as stored* (after narrowing to the forest's edge type),
    not the caller's value: a double that underflows single precision is stored as 0.0f and has to become the zero edge (seed C19b)"""
    import re
    R = RuleResult("guard.zero-of-stored", "in forest::getEdgeForValue every choice between OMEGA_ZERO and OMEGA_NORMAL tests the edge value that was just stored (the out-parameter after set()), never the incoming value")
    for f in P.find(M + "forest::getEdgeForValue"):
        if not f.get("cfg"):
            continue
        g = Graph(f)
        ps = [x["name"] for x in f.get("params", [])]
        if len(ps) < 3:
            raise AnalysisBroken("guard.zero-of-stored: getEdgeForValue no longer has (value, edge value, node) parameters")
        tin, vout, pout = ps[0], ps[1], ps[2]
        R.functions.add(f["inst"])
        for k in g.nodes:
            if k.kind != "ldef" or k.ev["var"] != pout or "OMEGA_ZERO" not in k.ev.get("rhs", "") or "OMEGA_NORMAL" not in k.ev["rhs"] or "?" not in k.ev["rhs"]:
                continue
            cond = k.ev["rhs"].split("?")[0]
            R.paths += 1
            iid = "getEdgeForValue: `%s` tests the stored edge value" % re.sub(r"\s+", " ", k.ev["rhs"])[:60]
            reads_v = re.search(r"(?<!\w)%s(?!\w)" % re.escape(vout), cond) is not None
            reads_t = re.search(r"(?<!\w)%s(?!\w)" % re.escape(tin), cond) is not None
            setv = lambda n: n.kind == "call" and n.ev["q"].startswith(M + "edge_value::set") and n.ev.get("recv") == vout
            unset = g.path(g.entry, lambda n, k=k: n.id == k.id, avoid=setv)
            if reads_v and not reads_t and unset is None:
                R.ok(iid, where(f, k.line))
            else:
                R.fail(iid, where(f, k.line), Finding(R.rule, f["file"], f["q"], "zero-test@%d" % len(R.instances),
                       "the zero edge is chosen by testing `%s`%s: a value that becomes 0 only when narrowed to the stored type (a double below float's range) is stored as <0, OMEGA_NORMAL>, a second, non-transparent zero" % (
                           cond.strip(), "" if unset is None else " before the edge value is stored"), k.line))
    R.require_floor(2, "OMEGA_ZERO / OMEGA_NORMAL choices")
    return R


def rule_partial_shortcut(P):
    """a partial operation (x - infinity, x / 0, x % 0) raises its error in the terminal case of the policy's apply(); the shortcut predicates
    simplifiesToFirstArg / simplifiesToSecondArg end the recursion *before* any terminal of the second operand is looked at.  A shortcut is
    therefore sound only where it pins the second operand to one constant handle (e.g. OMEGA_NORMAL == b, one.getHandle() == b); a shortcut
    taken on the first operand alone (0 / b = 0, infinity - b = infinity) or on a class of handles (isTerminalNode(b)) returns a value where
    the documented behaviour is the error"""
    import re
    from rules_dispatch import _context
    R = RuleResult("guard.partial-shortcut", "in every arithmetic policy whose terminal apply() throws DIVIDE_BY_ZERO / SUBTRACT_INFINITY, each way simplifiesToFirstArg / simplifiesToSecondArg can answer true compares the second operand's handle with one constant")
    thr = {}
    for f in P.fns.values():
        if f.get("cfg") and f["file"].startswith("operations/arith_") and f["q"].split("::")[-1] == "apply":
            for b in f["cfg"]["blocks"]:
                for e in b["ev"]:
                    if e["k"] == "throw" and e.get("code") in ("DIVIDE_BY_ZERO", "SUBTRACT_INFINITY"):
                        thr.setdefault(base_name(f["q"]).rsplit("::", 1)[0], set()).add(e["code"])
    if len(thr) < 5:
        raise AnalysisBroken("guard.partial-shortcut: expected ≥5 throwing policy templates (mt_div, evplus_div, evstar_div, evplus_minus, mt_mod, evplus_mod), found %s" % sorted(thr))
    seen = set()
    for f in sorted(P.fns.values(), key=lambda f: (f["file"], f["line"], f["inst"])):
        bq = base_name(f["q"])
        if "::" not in bq:
            continue
        cls, nm = bq.rsplit("::", 1)
        if cls not in thr or nm not in ("simplifiesToFirstArg", "simplifiesToSecondArg") or not f.get("cfg") or (f["file"], f["line"]) in seen:
            continue
        seen.add((f["file"], f["line"]))
        g = Graph(f)
        ps = [p_["name"] for p_ in f["params"]]
        second = ps[-1]                      # (L, fa, a, fb, b) or (L, f1, av, an, f2, bv, bn): the second operand's node handle is last
        R.functions.add(f["inst"])
        pins = lambda t: re.search(r"==\s*%s\b|\b%s\s*==" % (second, second), t) is not None
        for n in g.nodes:
            if n.kind != "ret":
                continue
            text = re.sub(r"\s+", " ", n.ev.get("text", "")).strip()
            if text in ("false", "0", ""):
                continue
            ctx = [t for t, arm in _context(g, n) if arm == "true"]
            ctx_pins = any(pins(t) for t in ctx)
            t0 = text
            while t0.startswith("(") and t0.endswith(")") and t0.count("(") == t0.count(")") and "||" not in t0:
                t0 = t0[1:-1].strip()
            disj, d, cur = [], 0, ""
            i = 0
            while i < len(t0):
                ch = t0[i]
                d += ch == "("
                d -= ch == ")"
                if d == 0 and t0.startswith("||", i):
                    disj.append(cur.strip())
                    cur = ""
                    i += 2
                    continue
                cur += ch
                i += 1
            disj.append(cur.strip())
            for dj in disj:
                R.paths += 1
                dtxt = dj if dj not in ("true", "1") else "true when " + " && ".join(ctx)
                iid = "%s::%s: `%s`" % (cls.replace(M, ""), nm, dtxt[:80])
                if ctx_pins or pins(dj):
                    R.ok(iid, where(f, n.line))
                else:
                    R.fail(iid, where(f, n.line), Finding(R.rule, f["file"], bq, "shortcut:" + re.sub(r"\s+", "", dtxt)[:70],
                           "%s answers true by `%s` without comparing the second operand `%s` with a constant: the recursion stops before the terminal case that raises %s, and a value is returned for %s" % (
                               nm, dtxt, second, "/".join(sorted(thr[cls])), "x - infinity" if "SUBTRACT_INFINITY" in thr[cls] else "x / 0 (x % 0)"), n.line, inst=f["inst"]))
    R.require_floor(8, "ways a throwing policy's shortcut predicates can answer true")
    return R


def _split_sig(sig):
    t = (sig or "").strip()
    if not t.startswith("("):
        return None
    d, cur, out = 0, "", []
    for ch in t[1:]:
        if ch in "(<[":
            d += 1
        if ch in ")>]":
            if d == 0:
                break
            d -= 1
        if ch == "," and d == 0:
            out.append(cur.strip())
            cur = ""
        else:
            cur += ch
    out.append(cur.strip())
    return out


def rule_flags_binding(P):
    """node_storage_flags, node_handle, unsigned and int convert into each other silently.  Where a call is spelled with a storage-flag constant
    (FULL_ONLY, SPARSE_ONLY, FULL_OR_SPARSE) the overload clang resolved must take a node_storage_flags in that position; otherwise the call has
    picked another overload and the constant is being read as a node handle or a size (pregen_relation::splitMxd: defect D18)"""
    R = RuleResult("guard.flags-binding", "every argument spelled FULL_ONLY / SPARSE_ONLY / FULL_OR_SPARSE binds to a parameter of type node_storage_flags in the overload the compiler resolved")
    flags = {"FULL_ONLY", "SPARSE_ONLY", "FULL_OR_SPARSE"}
    seen = set()
    for f in sorted(P.fns.values(), key=lambda f: (f["file"], f["line"], f["inst"])):
        if not f.get("cfg"):
            continue
        for b in f["cfg"]["blocks"]:
            for e in b["ev"]:
                if e["k"] not in ("call", "construct") or not e.get("args"):
                    continue
                for i, a in enumerate(e["args"]):
                    if a.strip().replace("MEDDLY::", "") not in flags:
                        continue
                    ps = _split_sig(e.get("sig", ""))
                    key = (f["file"], e["line"], i)
                    if key in seen or not ps or i >= len(ps):
                        continue
                    seen.add(key)
                    R.paths += 1
                    R.functions.add(f["inst"])
                    iid = "%s:%s %s(… %s …)" % (f["file"], e["line"], e["q"].split("::")[-1], a.strip())
                    if "node_storage_flags" in ps[i] or "unsigned char" in ps[i]:
                        R.instances.append({"id": iid, "where": "src/%s:%s" % (f["file"], e["line"]), "ok": True}) if len(R.instances) < 400 else None
                    else:
                        R.fail(iid, where(f, e["line"]), Finding(R.rule, f["file"], base_name(f["q"]), "%s#%d=%s" % (e["q"].split("::")[-1], i, a.strip()),
                               "`%s` is passed as argument %d of %s%s, whose parameter there is `%s`: the call resolved to a different overload than the one written for, and the flag constant is read as a %s" % (
                                   a.strip(), i + 1, e["q"].replace(M, ""), e.get("sig", ""), ps[i], "node handle" if "node_handle" in ps[i] else "value of that type"), e["line"]))
    # the same defect from the other side: a node-handle expression (child pointer, edge's node, a handle parameter) bound to an edge_value parameter
    # through edge_value's converting constructor.  Expected count on a sound tree: zero; the storage-flag sites above keep the rule from being vacuous.
    import re
    seen2 = set()
    for f in sorted(P.fns.values(), key=lambda f: (f["file"], f["line"], f["inst"])):
        if not f.get("cfg"):
            continue
        handles = {p_["name"] for p_ in f.get("params", []) if p_.get("handle")}
        for b in f["cfg"]["blocks"]:
            for e in b["ev"]:
                if e["k"] not in ("call", "construct") or not e.get("args"):
                    continue
                ps = _split_sig(e.get("sig", ""))
                if not ps:
                    continue
                for i, a in enumerate(e["args"]):
                    if i >= len(ps) or "edge_value" not in ps[i]:
                        continue
                    a0 = a.strip()
                    if not (re.search(r"->down\(|\.down\(|getNode\(\)|linkNode\(", a0) or a0 in handles):
                        continue
                    key = (f["file"], e["line"], i)
                    if key in seen2:
                        continue
                    seen2.add(key)
                    R.paths += 1
                    R.fail("%s:%s %s(… %s …)" % (f["file"], e["line"], e["q"].split("::")[-1], a0), where(f, e["line"]),
                           Finding(R.rule, f["file"], base_name(f["q"]), "%s#%d=%s" % (e["q"].split("::")[-1], i, re.sub(r"\s+", "", a0)[:40]),
                                   "the node handle `%s` is passed as argument %d of %s%s, an edge value there: the call resolved to another overload than the one written for" % (a0, i + 1, e["q"].replace(M, ""), e.get("sig", "")), e["line"]))
    R.require_floor(250, "storage-flag arguments")
    return R


def rule_null_op(P):
    R = RuleResult("guard.null-op", "every apply() wrapper tests the operation returned by the factory and throws NOT_IMPLEMENTED when it is null, before calling compute on it")
    for f in sorted(P.fns.values(), key=lambda f: (f["file"], f["line"], f["inst"])):
        if not f.get("cfg") or f["q"].split("::")[-1] != "apply" or f["file"] not in ("oper_unary.h", "oper_binary.h", "oper_ternary.h", "oper_unary.cc", "oper_binary.cc", "oper_ternary.cc", "ops_builtin.h", "ops_builtin.cc"):
            continue
        g = Graph(f)
        for c in g.nodes:
            if c.kind != "call" or c.ev["q"].split("::")[-1] not in ("compute", "computeTemp") or not c.ev.get("recvq"):
                continue
            var = c.ev["recvq"].split("::")[-1]
            if c.ev.get("recv") == "this":
                continue
            R.functions.add(f["inst"])
            R.paths += 1
            tests = g.throwing_tests(lambda cd: var in cd["refs"], "NOT_IMPLEMENTED")
            iid = "%s%s: %s tested before ->%s" % (f["inst"].replace(M, ""), f["sig"][:50], var, c.ev["q"].split("::")[-1])
            if "ternary_builtin" in f["sig"] and not tests:
                # the wrapper has no test; that is only sound if no ternary builtin can return null
                four = "(class MEDDLY::forest *,class MEDDLY::forest *,class MEDDLY::forest *,class MEDDLY::forest *)"
                cands = [h for h in P.fns.values() if h["sig"] == four and "class" not in h and h.get("cfg")]
                nullers = []
                for h in cands:
                    gh = Graph(h)
                    for r in gh.nodes:
                        if r.kind == "ret" and (r.ev.get("const") == 0 or r.ev["text"].strip() in ("0", "nullptr", "NULL")):
                            nullers.append(h)
                if len(cands) < 3:
                    raise AnalysisBroken("guard.null-op: expected the three ternary builtins (4-forest free functions), found %d" % len(cands))
                if not nullers:
                    R.ok(iid + " [no ternary builtin returns null: %s]" % ", ".join(sorted(h["q"].replace(M, "") for h in cands)), where(f, c.line))
                    continue
            p = g.path(g.entry, lambda n: n.id == c.id, avoid=lambda n: any(n is t[0] for t in tests))
            if tests and not p:
                R.ok(iid, where(f, c.line))
            else:
                R.fail(iid, where(f, c.line), Finding(R.rule, f["file"], base_name(f["q"]) + f["sig"], var + "->compute",
                       "a null operation (unsupported forest combination) is dereferenced instead of raising NOT_IMPLEMENTED", c.line, show_path(p) if p else None, inst=f["inst"]))
    R.require_floor(12, "apply() wrappers")
    return R


def rule_iterator_deref(P):
    R = RuleResult("guard.iterator-deref", "dd_edge::iterator::operator* throws INVALID_ITERATOR when the iterator is exhausted, before touching the minterm")
    fs = P.find(M + "dd_edge::iterator::operator*")
    for f in fs:
        g = Graph(f)
        R.functions.add(f["inst"])
        R.paths += 1
        tests = g.throwing_tests(lambda c: "atEnd" in c["refs"], "INVALID_ITERATOR")
        p = g.path(g.entry, lambda n: n.kind == "ret", avoid=lambda n: any(n is t[0] for t in tests))
        iid = "iterator::operator* tests atEnd"
        if tests and not p and all((i == 0) != bool(b.cond.get("neg")) for b, i, _t in tests):
            R.ok(iid, where(f, tests[0][2].line))
        else:
            R.fail(iid, where(f), Finding(R.rule, f["file"], f["q"], "INVALID_ITERATOR", "dereferencing an exhausted iterator is not rejected", f["line"], show_path(p) if p else None))
    R.require_floor(1, "iterator dereference")
    return R


RULES = [rule_ctor_checks, rule_div_zero, rule_sub_infinity, rule_int_overflow, rule_edge_for_value, rule_null_op, rule_iterator_deref]
VALUE_RULES = [rule_zero_of_stored, rule_partial_shortcut, rule_flags_binding]
