"""Rule results, known findings, evidence files."""
import hashlib
import json
import os
import re
import time

from frontend import VERIF, AnalysisBroken

EVIDENCE_DIR = os.path.join(VERIF, "evidence")
KNOWN_FILE = os.path.join(VERIF, "known_findings.txt")
REPLAY_DIR = os.path.join(VERIF, "replay")


class Finding:
    """one violated rule instance, identified without line numbers"""

    def __init__(self, rule, file, fn, sink, msg, line=None, path=None, inst=None):
        self.rule = rule
        self.file = file if file.startswith("src/") else "src/" + file
        self.fn = fn
        self.sink = sink
        self.msg = msg
        self.line = line
        self.path = path
        self.inst = inst

    def key(self):
        return (self.rule, self.file, self.fn, self.sink)

    def to_json(self):
        return {"rule": self.rule, "file": self.file, "fn": self.fn, "sink": self.sink, "line": self.line,
                "msg": self.msg, "path": self.path, "instantiation": self.inst}

    def text(self):
        s = "%s:%s: [%s] %s — %s (sink=%s)" % (self.file, self.line or "?", self.rule, self.fn, self.msg, self.sink)
        if self.path:
            s += "\n      path: " + self.path
        return s


class RuleResult:
    """what one rule covered: its obligations (instances), which failed, what it looked at"""

    def __init__(self, rule, desc):
        self.rule = rule
        self.desc = desc
        self.instances = []   # [{'id','where','ok'}]
        self.findings = []
        self.notes = []       # evidence-only remarks (advisory, partially modelled, …)
        self.floor = 0
        self.functions = set()
        self.paths = 0        # path / reachability queries evaluated

    def ok(self, iid, where, **kw):
        d = {"id": iid, "where": where, "ok": True}
        d.update(kw)
        self.instances.append(d)

    def fail(self, iid, where, finding, **kw):
        d = {"id": iid, "where": where, "ok": False}
        d.update(kw)
        self.instances.append(d)
        self.findings.append(finding)

    def require_floor(self, n, what):
        self.floor = n
        # a rule that already found a violation is not passing vacuously: its report stands even if other instances vanished with the same edit
        if len(self.instances) < n and not self.findings:
            raise AnalysisBroken("rule %s matched %d instance(s) of %s, fewer than the %d confirmed by hand: the rule would pass vacuously" % (self.rule, len(self.instances), what, n))


def load_known():
    """known_findings.txt → ([known entries], [fixed entries]); a known entry is a dict with property, rule, file, fn, sink, text"""
    known, fixed = [], []
    if not os.path.exists(KNOWN_FILE):
        return known, fixed
    for ln in open(KNOWN_FILE):
        ln = ln.strip()
        if not ln or ln.startswith("#"):
            continue
        if ln.startswith("fixed:"):
            fixed.append(ln)
            continue
        if ln.startswith("known:"):
            d = {}
            m = re.search(r'"(.*)"\s*$', ln)
            d["text"] = m.group(1) if m else ""
            body = ln[len("known:"):]
            if m:
                body = body[: body.rfind('"' + d["text"] + '"')]
            # fn= may contain spaces (signatures): fields are separated by " <key>="
            parts = re.split(r"\s(?=(?:property|rule|file|fn|sink)=)", " " + body.strip())
            for p in parts:
                p = p.strip()
                if "=" in p:
                    k, v = p.split("=", 1)
                    d[k] = v.strip()
            if not all(k in d for k in ("property", "rule", "file", "fn", "sink")):
                raise AnalysisBroken("malformed line in known_findings.txt: " + ln)
            known.append(d)
    return known, fixed


def split_known(prop, findings):
    """partition findings into (new violations, [(finding, known entry)])"""
    known, _ = load_known()
    idx = {}
    for k in known:
        if k["property"] == prop:
            idx[(k["rule"], k["file"], k["fn"], k["sink"])] = k
    new, old = [], []
    for f in findings:
        k = idx.get(f.key())
        if k:
            old.append((f, k))
        else:
            new.append(f)
    return new, old


def rules_hash():
    h = hashlib.sha256()
    d = os.path.join(VERIF, "rules")
    if os.path.isdir(d):
        for n in sorted(os.listdir(d)):
            h.update(n.encode())
            h.update(open(os.path.join(d, n), "rb").read())
    for n in sorted(os.listdir(os.path.join(VERIF, "lib"))):
        if n.endswith(".py"):
            h.update(open(os.path.join(VERIF, "lib", n), "rb").read())
    return h.hexdigest()[:16]


def write_evidence(prop, tier, seed, results, new, old, fe, wall, explanation, assumptions, extra=None):
    os.makedirs(EVIDENCE_DIR, exist_ok=True)
    insts = [i for r in results for i in r.instances]
    nonvac = [i for i in insts]
    distinct = len({(r.rule, i["id"]) for r in results for i in r.instances})
    fns = set()
    for r in results:
        fns |= r.functions
    samples = []
    for r in results:
        for i in r.instances[:3]:
            samples.append({"rule": r.rule, "instance": i["id"], "where": i["where"], "holds": i["ok"]})
    cov = {
        "explanation": explanation,
        "checker_cmd": "./check %s --tier %s" % (prop, tier),
        "obligations": len(insts),
        "discharged": sum(1 for i in insts if i["ok"]),
        "evaluations": max(1, sum(r.paths for r in results) + len(insts)),
        "distinct_nontrivial": distinct,
        "rule": "; ".join("%s: %s" % (r.rule, r.desc) for r in results),
        "samples": samples[:40],
        "rules": [{"rule": r.rule, "instances": len(r.instances), "failed": len(r.findings), "floor": r.floor,
                   "functions": len(r.functions), "path_queries": r.paths, "notes": r.notes[:20]} for r in results],
        "units_analysed": len(fe.units),
        "source_files_hashed": fe.nfiles,
        "functions_analysed": len(fns),
        "tree_hash": fe.key[:16],
        "rule_tables_hash": rules_hash(),
        "compile_flags": fe.flags,
        "flags_from": fe.flag_source,
        "front_end_wall_s": fe.timing,
        "known_findings_reported": [f.to_json() for f, _ in old],
        "new_violations": [f.to_json() for f in new],
        "trusted_base": ["clang 14 front end and CFG builder", "rule tables under /verif/rules and /verif/lib", "msa fact extraction"],
        "exhaustive": True,
    }
    if extra:
        cov.update(extra)
    ev = {"property_id": prop, "tier": tier, "seed": seed, "level": "other", "coverage": cov,
          "assumptions": assumptions, "wall_s": round(wall, 2), "violations": len(new)}
    with open(os.path.join(EVIDENCE_DIR, prop + ".json"), "w") as f:
        json.dump(ev, f, indent=1, sort_keys=True)
    return ev


def write_replay(prop, findings):
    os.makedirs(REPLAY_DIR, exist_ok=True)
    p = os.path.join(REPLAY_DIR, "%s.json" % prop)
    with open(p, "w") as f:
        json.dump({"property": prop, "findings": [x.to_json() for x in findings]}, f, indent=1)
    return p
