"""canon — reduce-then-lookup-before-insert (DESIGN §2.7): on the CFG of forest::createReducedNode every
path that makes a new node visible in the unique table has passed, in order, through edge-value
normalisation, the transparent test, sorting of sparse input, the identity-pattern test, the redundancy
test, the hash computation and the duplicate lookup.  Plus: dd_edge equality reads forest id, node
and edge value of both sides."""
import re

from cfg import Graph, qmatch, show_path
from core import Finding, RuleResult
from frontend import AnalysisBroken, where, base_name
from rules_codec import switch_cases, _enum

M = "MEDDLY::"


def _is_call(name):
    return lambda n: n.kind in ("call", "construct") and qmatch(base_name(n.ev["q"]), name)


def rule_canon(P):
    R = RuleResult("canon.reduce-before-insert", "forest::createReducedNode: every path to unique->add has passed normalisation, the transparent / identity / redundancy eliminations and a failed unique->find, in that order")
    fs = [f for f in P.find(M + "forest::createReducedNode") if "edge_value" in f["sig"] and f.get("cfg")]
    if not fs:
        raise AnalysisBroken("canon: forest::createReducedNode(unpacked_node*, edge_value&, node_handle&, int) not found")
    f = fs[0]
    g = Graph(f)
    R.functions.add(f["inst"])
    sinks = g.where(_is_call("unique_table::add"))
    if not sinks:
        raise AnalysisBroken("canon: createReducedNode no longer calls unique_table::add")
    sink = lambda n: n in sinks

    def fail(iid, sinkname, msg, p=None, line=None):
        R.fail(iid, where(f, line), Finding(R.rule, f["file"], f["q"], sinkname, msg, line or f["line"], show_path(p) if p else None))

    def must_pass(iid, sinkname, pred, why):
        R.paths += 1
        hits = g.where(pred)
        p = g.path(g.entry, sink, avoid=pred)
        if hits and not p:
            R.ok(iid, where(f, hits[0].line))
            return hits
        fail(iid, sinkname, why, p)
        return hits

    # (1) normalisation per labeling
    norm = {"EVPLUS": "normalize_evplus", "INDEX_SET": "normalize_evplus", "EVTIMES": "normalize_evstar"}
    sw = [c for c in switch_cases(g) if any(_enum(l) in norm for l in c)]
    if not sw:
        raise AnalysisBroken("canon: the edge-labeling switch of createReducedNode was not found")
    cases = sw[0]
    seen_labels = {_enum(l) for l in cases}
    for lab in ("MULTI_TERMINAL", "EVPLUS", "INDEX_SET", "EVTIMES"):
        iid = "labeling %s is normalised before reduction" % lab
        R.paths += 1
        # labels that share a body with another label (fallthrough) reach that body's events
        ids = None
        for l, s in cases.items():
            if _enum(l) == lab:
                ids = s
        if ids is None and lab == "EVPLUS" and "INDEX_SET" in seen_labels:
            ids = [s for l, s in cases.items() if _enum(l) == "INDEX_SET"][0]   # `case EVPLUS: case INDEX_SET:` share one block
        if ids is None and lab == "INDEX_SET" and "EVPLUS" in seen_labels:
            ids = [s for l, s in cases.items() if _enum(l) == "EVPLUS"][0]
        if ids is None:
            fail(iid, "normalise:" + lab, "no case for edge labeling %s in createReducedNode" % lab)
            continue
        if lab == "MULTI_TERMINAL":
            ok = any(g.nodes[i].kind == "call" and g.nodes[i].ev["q"] == M + "edge_value::set" and g.nodes[i].ev.get("sig") == "()" for i in ids)
            msg = "multi-terminal nodes must leave with a void edge value"
        else:
            want = norm[lab]
            calls = [g.nodes[i] for i in ids if g.nodes[i].kind == "call" and want in g.nodes[i].ev["q"]]
            # every way through this case passes the normaliser
            starts = [n for n in g.nodes if n.kind == "branch" and g.blocks[n.block].get("term") == "SwitchStmt"]
            ok = bool(calls)
            msg = "edge values of a %s node are not normalised to the canonical representative before the duplicate lookup" % lab
        if ok:
            R.ok(iid, where(f))
        else:
            fail(iid, "normalise:" + lab, msg)
    swn = must_pass("every insertion path goes through the labeling switch", "labeling-switch",
                    lambda n: n.kind == "branch" and g.blocks[n.block].get("term") == "SwitchStmt" and n.cond and "edgeLabel" in n.cond["refs"], "a node can be inserted without passing the normalisation switch")

    # (2) transparent elimination
    def zero_nnz(n):
        if n.kind != "branch" or not n.cond or n.cond.get("op") != "==":
            return False
        l, r = n.cond["l"], n.cond["r"]
        # the count of non-transparent children compared with 0 — recognised by what its zero arm does (returns the
        # transparent node), not by the variable's name
        if not ((l.get("const") == 0 and "const" not in r and len(r["refs"]) == 1) or (r.get("const") == 0 and "const" not in l and len(l["refs"]) == 1)) or len(n.succ) != 2:
            return False
        st = [s for s, i in n.succ if i == (1 if n.cond.get("neg") else 0)][0]
        return _is_call("forest::getTransparentNode")(g.nodes[st]) or g.path(st, _is_call("forest::getTransparentNode"), avoid=sink) is not None
    tz = must_pass("transparent test (nnz == 0) on every insertion path", "transparent-test", zero_nnz, "a node whose children are all transparent can be inserted (no nnz==0 test on some path)")
    for t in tz:
        idx = 1 if t.cond.get("neg") else 0
        st = [s for s, i in t.succ if i == idx][0]
        R.paths += 1
        p = g.path(st, sink) if not sink(g.nodes[st]) else [g.nodes[st]]
        iid = "the transparent arm returns the transparent node and never inserts"
        trans = g.path(st, _is_call("forest::getTransparentNode"))
        if p:
            fail(iid, "transparent-arm", "the all-transparent case reaches unique->add", p, t.line)
        elif not trans and not _is_call("forest::getTransparentNode")(g.nodes[st]):
            fail(iid, "transparent-arm", "the all-transparent case does not return getTransparentNode()", None, t.line)
        else:
            R.ok(iid, where(f, t.line))

    # (3) sparse input is sorted
    sp = [n for n in g.nodes if n.kind == "branch" and n.cond and any(c.endswith("unpacked_node::isSparse") for c in n.cond["calls"]) and n.cond.get("op") == "truth" and len(n.succ) == 2]
    good = False
    for b in sp:
        if g.path(g.entry, sink, avoid=lambda n, b=b: n.id == b.id):
            continue
        st = [s for s, i in b.succ if i == (1 if b.cond.get("neg") else 0)][0]
        if _is_call("unpacked_node::sort")(g.nodes[st]) or not g.path(st, sink, avoid=_is_call("unpacked_node::sort")):
            good = True
    R.paths += 1
    if good:
        R.ok("sparse input is sorted before hashing / duplicate test", where(f))
    else:
        fail("sparse input is sorted before hashing / duplicate test", "sort", "a sparse unpacked node can reach the unique table unsorted: equal nodes hash and compare differently")

    # (3b) nothing that depends on the order of the entries runs before the sort.  "Sparse world": every isSparse() test is true.
    ORDER_DEPENDENT = {
        "normalize_evstar": "it divides by the first non-zero edge value in storage order",
        "unpacked_node::computeHash": "it pushes (index, child, edge) in storage order",
        "unique_table::find": "the duplicate test compares a sparse key position by position",
    }
    sparse_false = lambda b, arm: b.kind == "branch" and b.cond and len(b.succ) == 2 and b.cond.get("op") == "truth" and any(c.endswith("unpacked_node::isSparse") for c in b.cond["calls"]) and arm == (0 if b.cond.get("neg") else 1)
    for name, why in sorted(ORDER_DEPENDENT.items()):
        R.paths += 1
        iid = "a sparse node is sorted before %s" % name.split("::")[-1]
        hits = g.where(_is_call(name))
        if not hits:
            fail(iid, "sort-before:" + name.split("::")[-1], "createReducedNode no longer calls %s: the ordering obligation cannot be placed" % name)
            continue
        pth = g.path(g.entry, _is_call(name), avoid=_is_call("unpacked_node::sort"), avoid_edge=sparse_false)
        if pth:
            fail(iid, "sort-before:" + name.split("::")[-1], "a sparse unpacked node written in non-ascending index order reaches %s before it is sorted, and %s: the same function written in two orders gets two different nodes" % (name.split("::")[-1], why), pth, hits[0].line)
        else:
            R.ok(iid, where(f, hits[0].line))

    # (4) identity pattern, (5) redundancy: heads of the condition chains are on every insertion path, eliminations never insert
    def one_nnz(n):
        if n.kind != "branch" or not n.cond or n.cond.get("op") != "==":
            return False
        l, r = n.cond["l"], n.cond["r"]
        # "exactly one non-transparent child": a comparison with the constant 1 whose true arm goes on to ask isIdentityReduced()
        if not ((l.get("const") == 1 and "const" not in r and len(r["refs"]) == 1) or (r.get("const") == 1 and "const" not in l and len(l["refs"]) == 1)) or len(n.succ) != 2:
            return False
        cur = g.nodes[[s for s, i in n.succ if i == (1 if n.cond.get("neg") else 0)][0]]
        for _ in range(40):
            if cur.kind == "branch" and cur.cond:
                return any(c.endswith("forest::isIdentityReduced") for c in cur.cond["calls"])
            if len(cur.succ) != 1:
                return False
            cur = g.nodes[cur.succ[0][0]]
        return False
    must_pass("identity-pattern test (1 == nnz && identity reduced && primed level) on every insertion path", "identity-test", one_nnz, "singleton identity nodes of an identity-reduced relation can be inserted")
    idb = [n for n in g.nodes if n.kind == "branch" and n.cond and any(c.endswith("forest::isIdentityReduced") for c in n.cond["calls"])]
    lvl = [n for n in g.nodes if n.kind == "branch" and n.cond and any(c.endswith("unpacked_node::getLevel") for c in n.cond["calls"]) and n.cond.get("op") in ("<", ">")]
    iid = "identity elimination is conditioned on isIdentityReduced() and on the level sign"
    if idb and lvl:
        R.ok(iid, where(f, idb[0].line))
    else:
        fail(iid, "identity-guards", "the identity elimination lost its isIdentityReduced()/level guards")
    must_pass("redundancy test (fully reduced, or identity reduced at an unprimed level) on every insertion path", "redundancy-test",
              lambda n: n.kind == "branch" and n.cond and any(c.endswith("forest::isFullyReduced") for c in n.cond["calls"]), "redundant nodes can be inserted in a fully-reduced forest")
    # the final `if (<flag>) { unlinkAllDown(*un, 1); …; return; }` — recognised by what the arm does (release all children but one)
    red = [n for n in g.nodes if n.kind == "branch" and n.cond and n.cond.get("op") == "truth" and len(n.cond["l"]["refs"]) == 1 and len(n.succ) == 2
           and g.nodes[[s for s, i in n.succ if i == (1 if n.cond.get("neg") else 0)][0]].kind == "call"
           and qmatch(g.nodes[[s for s, i in n.succ if i == (1 if n.cond.get("neg") else 0)][0]].ev["q"], "forest::unlinkAllDown")]
    R.paths += 1
    bad = None
    for b in red:
        st = [s for s, i in b.succ if i == (1 if b.cond.get("neg") else 0)][0]
        # the final `if (redundant) { …; return; }` must not insert; intermediate `if (redundant && …)` arms continue testing
        if g.nodes[st].kind == "call" and qmatch(g.nodes[st].ev["q"], "forest::unlinkAllDown"):
            bad = bad or g.path(st, sink)
    if red and not bad:
        R.ok("the redundant arm returns the common child and never inserts", where(f, red[0].line))
    else:
        fail("the redundant arm returns the common child and never inserts", "redundant-arm", "a node found redundant is inserted anyway", bad)

    # (6) hash + lookup + test of the lookup, (7) handle + storage, in order
    chain = [("unpacked_node::computeHash", "hash of the reduced content"), ("unique_table::find", "duplicate lookup"),
             ("node_headers::getFreeNodeHandle", "fresh handle"), ("node_storage::makeNode", "packed storage")]
    prev_pred = None
    for name, what in chain:
        pred = _is_call(name)
        hits = must_pass("%s on every insertion path" % name, name, pred, "a node is inserted without %s" % what)
        if prev_pred is not None and hits:
            R.paths += 1
            p = g.path(g.entry, pred, avoid=prev_pred)
            iid = "%s comes after %s" % (name, prev_name)
            if p:
                fail(iid, name + "-order", "%s can run before %s" % (name, prev_name), p)
            else:
                R.ok(iid, where(f, hits[0].line))
        prev_pred, prev_name = pred, name
    finds = g.where(_is_call("unique_table::find"))
    # the variable that receives the result of the duplicate lookup, whatever it is called
    found_vars = {n.ev["var"] for n in g.nodes if n.kind == "ldef" and re.search(r"\bfind\s*\(", n.ev.get("rhs", ""))}
    found = [n for n in g.nodes if n.kind == "branch" and n.cond and n.cond.get("op") == "truth" and len(n.cond["l"]["refs"]) == 1 and n.cond["l"]["refs"][0] in found_vars and len(n.succ) == 2]
    R.paths += 1
    iid = "a successful lookup returns the existing node and never inserts"
    okf = False
    for b in found:
        if g.path(g.entry, sink, avoid=lambda n, b=b: n.id == b.id):
            continue
        st = [s for s, i in b.succ if i == (1 if b.cond.get("neg") else 0)][0]
        if not g.path(st, sink) and not sink(g.nodes[st]):
            okf = True
    if finds and okf:
        R.ok(iid, where(f, finds[0].line))
    else:
        fail(iid, "find-result", "the result of unique->find is not tested (or the duplicate arm still inserts): two nodes with identical content can coexist")
    # level of the stored node is the level of the unpacked node
    lv = [n for n in g.nodes if n.kind == "call" and qmatch(n.ev["q"], "node_headers::setNodeLevel")]
    iid = "the new node's level is un->getLevel()"
    if lv and all("getLevel" in " ".join(n.ev["args"]) for n in lv):
        R.ok(iid, where(f, lv[0].line))
    else:
        fail(iid, "level", "the level recorded for a new node is not the unpacked node's level")
    R.require_floor(18, "ordered reduction obligations")
    return R


def rule_equals(P):
    R = RuleResult("canon.edge-equality", "dd_edge::equals compares forest id, node handle and edge value of the two edges")
    fs = P.find(M + "dd_edge::equals", required=False) or P.find(M + "dd_edge::operator==", required=False)
    if not fs:
        raise AnalysisBroken("canon.edge-equality: dd_edge::equals not found")
    n_ok = 0
    for f in fs:
        if not f.get("cfg"):
            continue
        g = Graph(f)
        R.functions.add(f["inst"])
        refs = set()
        for n in g.nodes:
            if n.kind == "branch" and n.cond:
                refs |= set(n.cond["refs"])
            if n.kind == "ret":
                refs |= set(n.ev.get("refs", []))
        for field in ("parentFID", "node", "edgeval"):
            iid = "%s%s reads %s" % (f["q"].replace(M, ""), f["sig"][:30], field)
            if field in refs:
                R.ok(iid, where(f))
                n_ok += 1
            else:
                R.fail(iid, where(f), Finding(R.rule, f["file"], f["q"], field, "edge equality ignores %s: edges denoting different functions can compare equal" % field, f["line"]))
    R.require_floor(3, "fields compared by edge equality")
    return R


def _hash_variants(g, sparse_pred, hashed_pred):
    """{(sparse, edges hashed): sorted kinds of hash pushes reachable on that combination of arms}"""
    sp = [n for n in g.nodes if n.kind == "branch" and n.cond and len(n.succ) == 2 and sparse_pred(n.cond)]
    hs = [n for n in g.nodes if n.kind == "branch" and n.cond and len(n.succ) == 2 and hashed_pred(n.cond)]
    if not sp or not hs:
        return None

    def kind(n):
        if n.kind != "call":
            return None
        q = n.ev["q"]
        if q.endswith("edge_value::hash"):
            return "edge"
        if q.endswith("hash_stream::push"):
            a = " ".join(n.ev["args"])
            if "hashed" in a or "header" in a.lower():
                return "header"
            if len(n.ev["args"]) == 2 and ("edge" in n.ev["args"][0] or "bytes" in n.ev["args"][1]):
                return "edge"
            return "pair"
        return None

    out = {}
    for sparse in (True, False):
        for hashed in (True, False):
            blocked = set()
            for n in sp:
                t = 1 if n.cond.get("neg") else 0
                blocked.add((n.id, (1 - t) if sparse else t))
            for n in hs:
                t = 1 if n.cond.get("neg") else 0
                blocked.add((n.id, (1 - t) if hashed else t))
            reach = g.reach([g.entry], avoid_edge=lambda n, i: (n.id, i) in blocked)
            # inside loops every push is counted once: the signature is the set of push sites
            ks = sorted(k for k in (kind(g.nodes[i]) for i in reach) if k)
            guards = sorted({"transparent-skip" for i in reach if g.nodes[i].kind == "branch" and g.nodes[i].cond and
                             (any(c.endswith("isTransparentEdge") or c.endswith("getTransparentNode") for c in g.nodes[i].cond["calls"]) or "tv" in g.nodes[i].cond["refs"])})
            out[(sparse, hashed)] = (ks, guards)
    return out


def rule_hash(P):
    R = RuleResult("codec.hash", "unpacked_node::computeHash and simple_separated::hashNode feed the hash stream with the same recipe in each of the four variants (sparse/full × edge values hashed or not): start(0), optional hashed header, then per non-transparent edge push(index, down) [+ edge value]")
    a = P.find(M + "unpacked_node::computeHash")[0]
    b = P.find(M + "simple_separated::hashNode")[0]
    ga, gb = Graph(a), Graph(b)
    R.functions |= {a["inst"], b["inst"]}
    va = _hash_variants(ga, lambda c: any(x.endswith("unpacked_node::isSparse") for x in c["calls"]), lambda c: any(x.endswith("areEdgeValuesHashed") for x in c["calls"]))
    # the packed side keeps the sparse bit in a local bool: the variable initialised from isSparse(…), whatever its name
    sparse_vars = {n.ev["var"] for n in gb.nodes if n.kind == "ldef" and re.search(r"\bisSparse\s*\(", n.ev.get("rhs", ""))}
    vb = _hash_variants(gb, lambda c: (c.get("op") == "truth" and len(c["l"]["refs"]) == 1 and c["l"]["refs"][0] in sparse_vars) or any(x.endswith("::isSparse") for x in c["calls"]),
                        lambda c: any(x.endswith("areEdgeValuesHashed") for x in c["calls"]))
    if not va or not vb:
        raise AnalysisBroken("codec.hash: sparse / hashed-edge branches not found in computeHash or hashNode")
    for key in sorted(va):
        iid = "%s, edge values %s: unpacked %s  packed %s" % ("sparse" if key[0] else "full", "hashed" if key[1] else "not hashed", va[key], vb[key])
        want_pairs = 1
        want_edges = 1 if key[1] else 0
        def norm(v):
            ks, guards = v
            return (ks.count("pair"), ks.count("edge"), ks.count("header"), tuple(guards))
        R.paths += 2
        if norm(va[key]) == norm(vb[key]) and norm(va[key])[0] == want_pairs and norm(va[key])[1] == want_edges and (key[0] or "transparent-skip" in va[key][1]):
            R.ok(iid, where(b))
        else:
            R.fail(iid, where(b), Finding(R.rule, b["file"], b["q"], "variant:%s/%s" % ("sparse" if key[0] else "full", "hashed" if key[1] else "plain"),
                   "the hash recipe differs between the unpacked node %s and the packed node %s (or is not one index/down pair%s per non-transparent edge): equal nodes then hash differently and duplicates escape the unique table" % (
                       va[key], vb[key], " plus the edge value" if key[1] else ""), b["line"]))
    for g, f in ((ga, a), (gb, b)):
        st = [n for n in g.nodes if n.kind == "call" and n.ev["q"].endswith("hash_stream::start")]
        fin = [n for n in g.nodes if n.kind == "call" and n.ev["q"].endswith("hash_stream::finish")]
        iid = "%s: start(0) … finish()" % f["q"].replace(M, "")
        if st and fin and all(n.ev["args"] == ["0"] for n in st):
            R.ok(iid, where(f))
        else:
            R.fail(iid, where(f), Finding(R.rule, f["file"], f["q"], "start/finish", "hash stream not started with seed 0 / not finished", f["line"]))
    R.require_floor(6, "hash recipe variants")
    return R


EDGE_SLOT_ACCESSORS = {
    # slot accessors of edge values: only edge-valued code calls them, each asserts MEDDLY_DCASSERT(_edge)
    "MEDDLY::unpacked_node::edgeval": "returns slot n's edge value to edge-valued callers",
    "MEDDLY::unpacked_node::subtractFromEdge": "EV+ normalisation only",
    "MEDDLY::unpacked_node::divideEdge": "EV* normalisation only",
    "MEDDLY::unpacked_node::setEdgeval": "edge-valued callers only",
}


def rule_edge_array_guarded(P):
    """an unpacked node of a multi-terminal forest has no edge-value array (_edge is null).  Methods that run for every forest kind — sort() is called
    by createReducedNode on every sparse node — may touch _edge[…] only under `hasEdges()` / `_edge`; the per-slot setters do exactly that.  sort()
    swapped _edge[] unconditionally (D24): a multi-terminal sparse node written out of index order crashed in createReducedNode"""
    R = RuleResult("canon.edge-array-guarded", "in unpacked_node's methods every use of _edge[…] is governed by the true arm of hasEdges() or of a test of _edge itself; the slot accessors for edge-valued callers are listed with their reason; the raw-pointer setters (const void*) are edge-valued by signature")
    n = 0
    seen = set()
    for f in sorted(P.fns.values(), key=lambda f: (f["file"], f["line"], f["inst"])):
        if not f.get("cfg") or f["file"] not in ("unpacked_node.cc", "unpacked_node.h") or not f["q"].startswith(M + "unpacked_node::") or (f["file"], f["line"]) in seen:
            continue
        seen.add((f["file"], f["line"]))
        g = Graph(f)
        for k in g.nodes:
            if k.kind not in ("call", "ret", "store", "ldef", "astore") or "_edge[" not in str({a: b for a, b in (k.ev or {}).items() if a in ("args", "recv", "text", "rhs", "lhs")}):
                continue
            n += 1
            R.functions.add(f["inst"])
            R.paths += 1
            iid = "%s: _edge[…] at line offset %d" % (base_name(f["q"]).replace(M, ""), k.line - f["line"])
            iid = "%s: use of _edge[…] (%s)" % (base_name(f["q"]).replace(M, ""), k.ev.get("q", k.kind).split("::")[-1])
            guarded = False
            for c in g.nodes:
                if c.kind != "branch" or not c.cond or len(c.succ) != 2:
                    continue
                t = re.sub(r"\s+|this->", "", c.cond["text"]).lstrip("!")
                if t not in ("hasEdges()", "_edge"):
                    continue
                arms = [i for s_, i in c.succ if k.id in g.reach([s_], avoid=lambda x, c=c: x.id == c.id)]
                if arms == [1 if c.cond.get("neg") else 0]:
                    guarded = True
            if guarded:
                R.ok(iid, where(f, k.line))
            elif base_name(f["q"]) in EDGE_SLOT_ACCESSORS or "const void *" in f.get("sig", ""):
                R.ok(iid, where(f, k.line), exempt=EDGE_SLOT_ACCESSORS.get(base_name(f["q"]), "raw edge-value pointer parameter: edge-valued by signature"))
            else:
                R.fail(iid, where(f, k.line), Finding(R.rule, f["file"], base_name(f["q"]), "edge-array:" + k.ev.get("q", k.kind).split("::")[-1],
                       "_edge[…] is used without a governing hasEdges() / _edge test: in a multi-terminal forest the array is null, and this method is not a slot accessor for edge-valued callers", k.line))
    if n < 8:
        raise AnalysisBroken("canon.edge-array-guarded: only %d uses of _edge[…] found in unpacked_node, expected ≥8" % n)
    R.require_floor(8, "uses of the edge-value array in unpacked_node")
    return R


RULES = [rule_canon, rule_equals, rule_hash, rule_edge_array_guarded]
