"""sibling — agreement between sibling / mirror-image implementations (DESIGN §2.6, §2.9; Engler-style
cross-checks).  The functions compared are twins by construction in MEDDLY: the four update paths of
counter_array, simplifiesToFirstArg/SecondArg of a commutative arithmetic policy, and the adjacent
variable swap of MT and EV+ forests.  A deviation between twins is reported with both sides named."""
import re

from cfg import Graph, qmatch, show_path
from core import Finding, RuleResult
from frontend import AnalysisBroken, where, base_name

M = "MEDDLY::"

# ------------------------------------------------------------------------------------------------
# counter_array: width tallies (C06: reference counts stay exact across the 8/16/32-bit widths)
# ------------------------------------------------------------------------------------------------

WIDTH_LAW = {256: "counts_09bit", 65536: "counts_17bit"}   # a count needs ≥9 bits from 256, ≥17 bits from 65536


def _governing_branch(g, n):
    """nearest branch reached by walking back over single-predecessor straight-line code; returns (branch, arm index)"""
    cur = n
    for _ in range(200):
        if len(cur.pred) != 1:
            return None
        p, idx = cur.pred[0]
        pn = g.nodes[p]
        if pn.kind == "branch" and len(pn.succ) >= 2:
            return pn, idx
        cur = pn
    return None


def _tallies(g):
    out = []
    for n in g.nodes:
        if n.kind == "store" and n.ev["op"] == "incdec" and n.ev["member"].split("::")[-1] in ("counts_09bit", "counts_17bit"):
            gb = _governing_branch(g, n)
            if not gb:
                out.append((None, None, n.ev["member"].split("::")[-1], n.ev["rhs"], n))
                continue
            b, idx = gb
            c = b.cond
            thr, arr = None, None
            if c.get("op") == "==" and not c.get("neg") and idx == 0:
                for side, other in ((c["l"], c["r"]), (c["r"], c["l"])):
                    if "const" in side:
                        thr = side["const"]
                        arr = next((r for r in other["refs"] if r.startswith("data")), None)
            out.append((thr, arr, n.ev["member"].split("::")[-1], n.ev["rhs"], n))
    return out


def rule_counter_width(P):
    R = RuleResult("sibling.counter-width", "counter_array: every tally of counts_09bit/counts_17bit is taken at its own threshold (256 / 65536) and the increment twins, the decrement twins, and increments vs decrements agree on (array, threshold, tally)")
    names = ("increment", "isZeroBeforeIncrement", "decrement", "isPositiveAfterDecrement")
    sets = {}
    for nm in names:
        f = P.find(M + "counter_array::" + nm)[0]
        g = Graph(f)
        R.functions.add(f["inst"])
        ts = _tallies(g)
        if not ts:
            raise AnalysisBroken("sibling.counter-width: no width tally found in counter_array::%s" % nm)
        sets[nm] = (f, ts)
        for thr, arr, ctr, op, node in ts:
            iid = "%s: %s%s when %s[i] == %s" % (nm, op, ctr, arr, thr)
            want_dir = "++" if "ncrement" in nm and nm != "isPositiveAfterDecrement" else "--"
            if nm in ("decrement", "isPositiveAfterDecrement"):
                want_dir = "--"
            if thr in WIDTH_LAW and WIDTH_LAW[thr] == ctr and op == want_dir and arr in ("data16", "data32") and not (arr == "data16" and thr == 65536):
                R.ok(iid, where(f, node.line))
            else:
                R.fail(iid, where(f, node.line), Finding(R.rule, f["file"], f["q"], "%s@%s[%s]" % (ctr, arr, thr),
                       "width tally %s%s is taken under `%s == %s[i]`: counts that need %s bits are mis-counted, so a later shrink of the counter array truncates live reference counts" % (
                           op, ctr, thr, arr, "9" if ctr.endswith("09bit") else "17"), node.line))
    def sig(nm, flip=False):
        return sorted((thr, arr, ctr, ({"++": "--", "--": "++"}[op] if flip else op)) for thr, arr, ctr, op, _ in sets[nm][1])
    for a, b, flip in (("increment", "isZeroBeforeIncrement", False), ("decrement", "isPositiveAfterDecrement", False), ("increment", "decrement", True)):
        iid = "%s and %s agree%s" % (a, b, " (mirrored)" if flip else "")
        sa, sb = sig(a), sig(b, flip)
        R.paths += 1
        if sa == sb:
            R.ok(iid, where(sets[a][0]), tallies=len(sa))
        else:
            diff = sorted(set(sa) ^ set(sb))
            R.fail(iid, where(sets[b][0]), Finding(R.rule, sets[b][0]["file"], sets[b][0]["q"], "twin:" + a,
                   "twin update paths disagree on width tallies: %s" % diff, sets[b][0]["line"]))
    R.require_floor(15, "width tallies and twin comparisons")
    return R


# ------------------------------------------------------------------------------------------------
# arithmetic policies: simplifiesToFirstArg / simplifiesToSecondArg of a commutative operation
# ------------------------------------------------------------------------------------------------

def _commutes(P, struct_q):
    """True/False/None: literal returned by <struct>::commutes()"""
    for f in P.by_q.get(struct_q + "::commutes", []):
        g = Graph(f)
        vals = {n.ev["text"] for n in g.nodes if n.kind == "ret"}
        if vals == {"true"}:
            return True
        if vals == {"false"}:
            return False
    return None


def _operand_groups(f):
    """parameter names of the first and second operand: [forest?, edge value?, handle] each"""
    ps = f["params"]
    hs = [i for i, p in enumerate(ps) if p["handle"]]
    if len(hs) != 2:
        return None
    start1 = next((i for i, p in enumerate(ps) if p["rec"] == "forest"), None)
    if start1 is None or start1 > hs[0]:
        start1 = hs[0]
    g1 = [p["name"] for p in ps[start1:hs[0] + 1]]
    g2 = [p["name"] for p in ps[hs[0] + 1:hs[1] + 1]]
    if len(g1) != len(g2):
        return None
    return g1, g2


def _skeleton(f, rename):
    """branch conditions and returned expressions in CFG order, identifiers renamed"""
    g = Graph(f)
    def rn(text):
        return re.sub(r"[A-Za-z_][A-Za-z_0-9]*", lambda m: rename.get(m.group(0), m.group(0)), text)
    live = g.reach([g.entry])
    out = []
    for n in g.nodes:
        if n.id not in live:
            continue
        if n.kind == "branch" and n.cond and len(n.succ) >= 2:
            out.append("if " + rn(n.cond["text"]))
        elif n.kind == "ret":
            out.append("return " + rn(n.ev["text"]))
        elif n.kind == "call" and not n.ev["q"].startswith("std::"):
            out.append("call " + n.ev["q"].split("::")[-1] + "(" + ",".join(rn(a) for a in n.ev["args"]) + ")" + ("@" + rn(n.ev.get("recv", "")) if n.ev.get("recv") else ""))
    return sorted(out)


def rule_mirror_simplify(P):
    R = RuleResult("sibling.mirror-simplify", "for every arithmetic policy with commutes()==true, simplifiesToSecondArg is the mirror image of simplifiesToFirstArg under exchanging the two operands (forest, edge value, handle)")
    seen = set()
    for f in sorted(P.fns.values(), key=lambda f: (f["file"], f["line"], f["inst"])):
        if not f["q"].endswith("::simplifiesToFirstArg") or not f["file"].startswith("operations/arith_") or not f.get("cfg"):
            continue
        sq = f["q"].rsplit("::", 1)[0]
        if sq in seen:
            continue
        seen.add(sq)
        com = _commutes(P, sq)
        twins = [t for t in P.by_q.get(sq + "::simplifiesToSecondArg", [])]
        if com is None or not twins:
            raise AnalysisBroken("sibling.mirror-simplify: cannot find commutes()/simplifiesToSecondArg of %s" % sq)
        if not com:
            R.notes.append("not commutative, mirror law does not apply: %s" % sq.replace(M, ""))
            continue
        t = twins[0]
        ga, gb = _operand_groups(f), _operand_groups(t)
        if not ga or not gb:
            raise AnalysisBroken("sibling.mirror-simplify: cannot split the operands of %s" % f["inst"])
        R.functions |= {f["inst"], t["inst"]}
        # First(x, y) must equal Second(y, x): rename First's operand 1 -> X, operand 2 -> Y; Second's operand 2 -> X, operand 1 -> Y
        ren_f = {}
        ren_t = {}
        for k, (n1, n2) in enumerate(zip(ga[0], ga[1])):
            ren_f[n1] = "X%d" % k
            ren_f[n2] = "Y%d" % k
        for k, (n1, n2) in enumerate(zip(gb[0], gb[1])):
            ren_t[n2] = "X%d" % k
            ren_t[n1] = "Y%d" % k
        sa, sb = _skeleton(f, ren_f), _skeleton(t, ren_t)
        iid = "%s: simplifiesToSecondArg mirrors simplifiesToFirstArg" % sq.replace(M, "")
        R.paths += 1
        if sa == sb:
            R.ok(iid, where(t), events=len(sa))
        else:
            only_a = [x for x in sa if x not in sb]
            only_b = [x for x in sb if x not in sa]
            R.fail(iid, where(t), Finding(R.rule, t["file"], base_name(t["q"]), "mirror",
                   "commutative operation, but the two shortcut predicates are not mirror images (X = the operand returned, Y = the other): first-arg side has %s, second-arg side has %s" % (only_a[:3], only_b[:3]),
                   t["line"], inst=t["inst"]))
    R.require_floor(6, "commutative arithmetic policies")
    return R


# ------------------------------------------------------------------------------------------------
# adjacent variable swap: MT and EV+ twins
# ------------------------------------------------------------------------------------------------

def _loop_bounds(f):
    """for each counting loop `i < bound`, the bound resolved through local initialisers to an expression over
    fields/calls/parameters (so that renaming locals does not matter), in CFG order of the loop conditions"""
    g = Graph(f)
    defs = {}
    for n in g.nodes:
        if n.kind == "ldef" and n.ev.get("rhs"):
            defs.setdefault(n.ev["var"], set()).add(n.ev["rhs"])
    def resolve(text, depth=0):
        if depth > 4:
            return text
        def sub(m):
            v = m.group(0)
            if v in defs and len(defs[v]) == 1:
                return "(" + resolve(next(iter(defs[v])), depth + 1) + ")"
            return v
        return re.sub(r"[A-Za-z_][A-Za-z_0-9]*", sub, text)
    out = []
    for b in sorted(g.blocks.values(), key=lambda b: b.get("tline") or 0):
        if b.get("term") == "ForStmt" and b.get("cond") and b["cond"].get("op") in ("<", "<="):
            out.append((b["cond"]["op"], resolve(b["cond"]["r"]["text"]), b.get("tline")))
    return out


def rule_swap_loops(P):
    R = RuleResult("sibling.swap-loops", "mtmdd_forest::swapAdjacentVariables and evmdd_pluslong::swapAdjacentVariables (the same algorithm for MT and EV+ nodes) iterate over the same ranges, loop for loop")
    a = P.find(M + "mtmdd_forest::swapAdjacentVariables")[0]
    b = P.find(M + "evmdd_pluslong::swapAdjacentVariables")[0]
    la, lb = _loop_bounds(a), _loop_bounds(b)
    R.functions |= {a["inst"], b["inst"]}
    if len(la) < 8 or len(lb) < 8:
        raise AnalysisBroken("sibling.swap-loops: expected ≥8 counting loops in each swap routine, found %d / %d" % (len(la), len(lb)))
    if len(la) != len(lb):
        R.fail("same number of loops", where(a), Finding(R.rule, a["file"], a["q"], "loops", "the twin swap routines have %d vs %d counting loops" % (len(la), len(lb)), a["line"]))
        return R
    for k, (x, y) in enumerate(zip(la, lb)):
        iid = "loop #%d: %s %s" % (k + 1, x[0], x[1][:70])
        R.paths += 1
        if x[:2] == y[:2]:
            R.ok(iid, where(a, x[2]))
        else:
            R.fail(iid, where(a, x[2]), Finding(R.rule, a["file"], a["q"], "loop#%d" % (k + 1),
                   "loop #%d runs to `%s` in the MT swap (line %s) but to `%s` in its EV+ twin (evmdd_pluslong.cc line %s): one of the two visits the wrong range of children" % (k + 1, x[1], x[2], y[1], y[2]), x[2]))
    R.require_floor(8, "paired loops of the twin swap routines")
    return R


TWIN_LOCALS = ("Blevel", "Brn", "Bu", "Cu", "kSize", "nextL")   # locals that are defined identically in both twins on today's tree


def rule_image_fire(P):
    """prepost_set_mtrel::_compute (one image step) and saturation_set_mtrel::recFire (the same step inside saturation) are
    twins; and in both, the number of indices enumerated for the result node is the size of the level that node was created at"""
    R = RuleResult("sibling.image-fire", "the image step and saturation's fire step define their shared locals identically per instantiation, and the index range written into the result node is the size of that node's own level")
    def defs(f):
        g = Graph(f)
        d = {}
        for n in g.nodes:
            if n.kind == "ldef" and n.ev.get("rhs"):
                d.setdefault(n.ev["var"], set()).add(re.sub(r"\s+", "", n.ev["rhs"]))
        return d
    images = {f["cls"].split("prepost_set_mtrel")[-1]: f for f in P.fns.values() if base_name(f["q"]) == M + "prepost_set_mtrel::_compute" and f.get("cfg")}
    fires = {f["cls"].split("saturation_set_mtrel")[-1]: f for f in P.fns.values() if base_name(f["q"]) == M + "saturation_set_mtrel::recFire" and f.get("cfg")}
    if len(images) < 4 or len(fires) < 4:
        raise AnalysisBroken("sibling.image-fire: expected ≥4 instantiations of each twin, found %d / %d" % (len(images), len(fires)))
    for f in list(images.values()) + list(fires.values()):
        d = defs(f)
        R.functions.add(f["inst"])
        # the result node is whatever local newWritable() defines; the index range is the local defined from getLevelSize() of the same forest
        cu = [m for m in (re.search(r"newWritable\(([^,]+),([^,]+),", x) for xs in d.values() for x in xs) if m]
        forests = {m.group(1) for m in cu}
        ks = [m for m in (re.search(r"([\w>-]+)->getLevelSize\(([^)]+)\)", x) for xs in d.values() for x in xs) if m and m.group(1) in forests]
        if not cu or not ks:
            raise AnalysisBroken("sibling.image-fire: result-node / level-size definitions not found in %s" % f["inst"])
        iid = "%s: indices written into the result node range over the size of its own level" % f["inst"].replace(M, "")[:100]
        R.paths += 1
        lv_node = {m.group(2) for m in cu}
        lv_size = {m.group(2) for m in ks}
        if lv_node == lv_size and len(lv_node) == 1:
            R.ok(iid, where(f))
        else:
            R.fail(iid, where(f), Finding(R.rule, f["file"], base_name(f["q"]), "kSize",
                   "the result node is created at level %s but the source indices enumerated for it range over the size of level %s: with non-uniform variable sizes states are missed (or the node is overrun)" % (sorted(lv_node), sorted(lv_size)), f["line"], inst=f["inst"]))
    for k in sorted(set(images) & set(fires)):
        da, db = defs(images[k]), defs(fires[k])
        for v in TWIN_LOCALS:
            if v not in da or v not in db:
                continue
            iid = "%s: `%s` defined alike in the image step and in recFire" % (k, v)
            R.paths += 1
            if da[v] == db[v]:
                R.ok(iid, where(images[k]))
            else:
                R.fail(iid, where(images[k]), Finding(R.rule, images[k]["file"], M + "prepost_set_mtrel::_compute", "twin:" + v,
                       "local `%s` is %s in the image step but %s in saturation's fire step" % (v, sorted(da[v]), sorted(db[v])), images[k]["line"], inst=images[k]["inst"]))
    R.require_floor(20, "twin obligations of the image and fire steps")
    return R


def _full_skeleton(f, subst=()):
    """every exported event of the function in CFG-node order as normalised text (conditions, calls with arguments, local
    definitions with their types and operators, stores, returns), with textual substitutions applied"""
    g = Graph(f)
    live = g.reach([g.entry])
    out = []
    def nz(t):
        for a, b in subst:
            # a compiled pattern is applied as a regular expression, a string literally
            t = a.sub(b, t) if hasattr(a, "sub") else t.replace(a, b)
        return re.sub(r"\s+", " ", t)
    for n in g.nodes:
        if n.id not in live:
            continue
        if n.kind == "branch" and n.cond and len(n.succ) >= 2:
            out.append("if " + nz(n.cond["text"]))
        elif n.kind == "call":
            out.append("call %s(%s)%s" % (nz(n.ev["q"].split("::")[-1]), ", ".join(nz(a) for a in n.ev["args"]), (" on " + nz(n.ev["recv"])) if n.ev.get("recv") else ""))
        elif n.kind == "ldef":
            out.append("def %s %s %s %s" % (nz(n.ev.get("vtype", "")), n.ev["var"], n.ev.get("op", "="), nz(n.ev.get("rhs", ""))))
        elif n.kind == "store":
            out.append("store %s %s %s" % (n.ev["member"].split("::")[-1], n.ev.get("op", "="), nz(n.ev["rhs"])))
        elif n.kind == "ret":
            out.append("return " + nz(n.ev["text"]))
        elif n.kind == "throw":
            out.append("throw " + n.ev.get("code", ""))
    return out


def rule_getelem_twins(P):
    """dd_edge::getElemInt and getElemLong are the same lookup for int- and long-valued index sets"""
    R = RuleResult("sibling.getelem-twins", "dd_edge::getElemLong is dd_edge::getElemInt with every int(…) conversion of an edge value replaced by long(…): same checks, same scan, same arithmetic, in the wider type")
    a = P.find(M + "dd_edge::getElemInt")[0]
    b = P.find(M + "dd_edge::getElemLong")[0]
    R.functions |= {a["inst"], b["inst"]}
    # only conversions *of edge values* widen; a cast of the level counter (int(k)) is the same in both twins
    sa = _full_skeleton(a, subst=((re.compile(r"\bint\((?=[^()]*edgeval)"), "long("), ("operator int", "operator long"), ("(int)", "(long)")))
    sb = _full_skeleton(b)
    if len(sa) < 20:
        raise AnalysisBroken("sibling.getelem-twins: skeleton of getElemInt has only %d events" % len(sa))
    import difflib
    sm = difflib.SequenceMatcher(a=sa, b=sb, autojunk=False)
    diffs = [(tag, sa[i1:i2], sb[j1:j2]) for tag, i1, i2, j1, j2 in sm.get_opcodes() if tag != "equal"]
    R.paths += 1
    iid = "getElemLong ≡ getElemInt[int→long] (%d events)" % len(sa)
    if not diffs:
        R.ok(iid, where(b), events=len(sa))
    else:
        tag, xa, xb = diffs[0]
        R.fail(iid, where(b), Finding(R.rule, b["file"], b["q"], "twin",
               "the long-valued lookup differs from the int-valued one beyond the int→long widening: int version has %s, long version has %s (%d difference(s))" % (xa[:2], xb[:2], len(diffs)), b["line"]))
    R.require_floor(1, "lookup twins")
    return R


SMALL_CONSTS = ("smallestChunk()", "SmallestChunk", "MediumHoleSize")


def rule_small_hole_threshold(P):
    """Engler-style contradiction rule: within one memory manager, every place that decides whether a hole is 'small' (not tracked
    in the free structure) compares against the smallest-chunk constant with the same strictness"""
    R = RuleResult("sibling.small-hole-threshold", "in each hole-based memory manager all comparisons against the smallest tracked chunk size agree on strictness (`< c` / `>= c`), so the code that drops a leftover and the code that later looks it up classify it alike")
    per_class = {}
    for f in P.fns.values():
        if not f["file"].startswith("memory_managers/") or not f.get("cfg") or "cls" not in f:
            continue
        g = Graph(f)
        live = g.reach([g.entry])
        for n in g.nodes:
            if n.id not in live:
                continue
            text = None
            if n.kind == "branch" and n.cond:
                text = n.cond["text"]
            elif n.kind == "ret":
                text = n.ev.get("text")
            if not text or not any(c in text for c in SMALL_CONSTS):
                continue
            m = re.search(r"(<=|>=|<|>)\s*(?:size_t\()?\s*(?:this->)?(?:[\w:<>]*::)?(smallestChunk\(\)|SmallestChunk|MediumHoleSize)", text)
            flip = False
            if not m:
                m = re.search(r"(smallestChunk\(\)|SmallestChunk|MediumHoleSize)\)?\s*(<=|>=|<|>)", text)
                flip = True
            if not m:
                continue
            op = m.group(1) if not flip else {"<": ">", ">": "<", "<=": ">=", ">=": "<="}[m.group(2)]
            family = "strict" if op in ("<", ">=") else "inclusive"       # `x < c` and `x >= c` draw the same line
            per_class.setdefault(base_name(f["cls"]), []).append((family, op, text[:80], f, n.line))
    if not per_class:
        raise AnalysisBroken("sibling.small-hole-threshold: no comparison against a smallest-chunk constant found in memory_managers/")
    for cls, sites in sorted(per_class.items()):
        fams = {s[0] for s in sites}
        for fam, op, text, f, line in sites:
            R.functions.add(f["inst"])
        iid = "%s: %d comparison(s) against the smallest chunk size agree (%s)" % (cls.replace(M, ""), len(sites), sorted({s[1] for s in sites}))
        R.paths += len(sites)
        if len(fams) == 1:
            R.ok(iid, where(sites[0][3], sites[0][4]))
        else:
            from collections import Counter
            # count each distinct comparison once (template instantiations repeat them)
            uniq = {}
            for s in sites:
                uniq.setdefault(s[2], s)
            major = Counter(s[0] for s in uniq.values()).most_common(1)[0][0]
            # the canonical predicate isSmallHole() defines the line when the vote is tied
            pred = [s for s in uniq.values() if s[3]["q"].endswith("::isSmallHole")]
            if pred and Counter(s[0] for s in uniq.values())[major] * 2 <= len(uniq):
                major = pred[0][0]
            odd = [s for s in sites if s[0] != major][0]
            R.fail(iid, where(odd[3], odd[4]), Finding(R.rule, odd[3]["file"], base_name(odd[3]["q"]), "threshold",
                   "`%s` draws the small-hole line differently from the other %d comparison(s) in this manager (%s): a hole of exactly the smallest size is dropped by one site and expected in the free structure by another" % (
                       odd[2], len(sites) - 1, sorted({s[2] for s in sites if s[0] == major})[:2]), odd[4], inst=odd[3]["inst"]))
    R.require_floor(2, "memory managers with a small-hole threshold")
    return R


def rule_graph_diagonals(P):
    """satur_graph keeps the off-diagonal entries of a relation node in `elements` and the diagonal entry of row i in `diagonals[i]`; saturation fires
    diagonal events from there.  Forward exploration (exploreRow, lazily) and backward exploration (buildTranspose, eagerly) are siblings: whichever
    function materialises off-diagonal entries from a row scan must record the diagonal entry in the equal-indices arm of the same test"""
    R = RuleResult("sibling.graph-diagonals", "every satur_graph function that materialises off-diagonal entries (constructs sparse_element(index, U->down(z)) in a row scan) records the diagonal entry: the i==j arm of the diagonal test reaches an element access of `diagonals`")
    n = 0
    for f in sorted(P.fns.values(), key=lambda f: (f["file"], f["line"], f["inst"])):
        if not f.get("cfg") or not f["q"].startswith(M + "satur_graph::"):
            continue
        g = Graph(f)
        mats = [k for k in g.nodes if k.kind == "construct" and k.ev["q"].endswith("sparse_element::sparse_element") and len(k.ev.get("args", [])) == 2 and "down(" in k.ev["args"][1]]
        if not mats:
            continue
        n += 1
        R.functions.add(f["inst"])
        R.paths += 1
        iid = "%s: the diagonal entry is recorded where off-diagonal entries are materialised" % base_name(f["q"]).replace(M, "")
        ok = False
        for k in mats:
            # the test that separates diagonal from off-diagonal entries: the nearest equality/inequality branch dominating the construction
            tests = [b for b in g.nodes if b.kind == "branch" and b.cond and len(b.succ) == 2 and b.cond.get("op") in ("==", "!=") and
                     k.id in g.reach([b.id]) and len({x for x in re.findall(r"\w+", b.cond["text"])}) == 2]
            for b in tests:
                eq_edge = (0 if b.cond["op"] == "==" else 1)
                notb = lambda x, b=b: x.id == b.id
                eq_arm = g.reach([s_ for s_, i in b.succ if i == eq_edge], avoid=notb) - g.reach([s_ for s_, i in b.succ if i != eq_edge], avoid=notb)
                ne_arm = g.reach([s_ for s_, i in b.succ if i != eq_edge], avoid=notb) - g.reach([s_ for s_, i in b.succ if i == eq_edge], avoid=notb)
                if k.id not in ne_arm:
                    continue
                if any(x.kind == "store" and x.ev["member"].split("::")[-1] == "diagonals" for x in (g.nodes[i] for i in eq_arm)):
                    ok = True
        if ok:
            R.ok(iid, where(f, mats[0].line))
        else:
            R.fail(iid, where(f, mats[0].line), Finding(R.rule, f["file"], base_name(f["q"]), "diagonal", "off-diagonal entries are stored but the equal-indices case never touches `diagonals`: events on the diagonal of this level are never fired in this direction of exploration", mats[0].line))
    if n < 2:
        raise AnalysisBroken("sibling.graph-diagonals: expected exploreRow and buildTranspose, found %d materialising functions" % n)
    R.require_floor(2, "materialising functions of satur_graph")
    return R


def rule_large_hole_threshold(P):
    """the grid managers call a hole 'large' (kept on a plain list, served without a size check) exactly when its size exceeds the largest request seen:
    size > max_request.  Every place that compares a hole size with max_request must draw the line at the same size, i.e. be `size > max_request`
    or its negation `size <= max_request`; a `<` or `>=` files the hole of exactly max_request slots on the wrong side (seed C18a)"""
    R = RuleResult("sibling.large-hole-threshold", "in every memory manager, each comparison of getHoleSize(·) with max_request is `>` or `<=` (hole size on the left): one threshold, one side for the hole of exactly max_request slots")
    n = 0
    seen = set()
    for f in sorted(P.fns.values(), key=lambda f: (f["file"], f["line"], f["inst"])):
        if not f.get("cfg") or not f["file"].startswith("memory_managers/") or (f["file"], f["line"]) in seen:
            continue
        seen.add((f["file"], f["line"]))
        texts = []
        for b in f["cfg"]["blocks"]:
            if b.get("cond") and b.get("tline"):
                texts.append((b["cond"]["text"], b["tline"]))
            for e in b["ev"]:
                if e["k"] == "ret" and e.get("text"):
                    texts.append((e["text"], e["line"]))
                elif e["k"] == "ldef" and e.get("rhs"):
                    texts.append((e["rhs"], e["line"]))
        for t, line in texts:
            t0 = re.sub(r"\s+", "", t).replace("this->", "")
            for m in re.finditer(r"(?:size_t\()?getHoleSize\([^()]*\)\)?(<=|>=|<|>|==|!=)max_request|max_request(<=|>=|<|>|==|!=)(?:size_t\()?getHoleSize\([^()]*\)\)?", t0):
                op = m.group(1) or {"<": ">", ">": "<", "<=": ">=", ">=": "<=", "==": "==", "!=": "!="}[m.group(2)]
                n += 1
                R.functions.add(f["inst"])
                R.paths += 1
                iid = "%s: hole size %s max_request" % (base_name(f["q"]).replace(M, "")[:60], op)
                if op in (">", "<="):
                    R.ok(iid, where(f, line))
                else:
                    R.fail(iid, where(f, line), Finding(R.rule, f["file"], base_name(f["q"]), "size%smax_request" % op,
                           "a hole is classified by `size %s max_request` here while the manager's predicate is `size > max_request`: the hole of exactly max_request slots lands on the other side — it stays on (or leaves) the large list while the bookkeeping that removes it treats it as a grid hole" % op, line))
    if n < 3:
        raise AnalysisBroken("sibling.large-hole-threshold: expected ≥3 comparisons of a hole size with max_request, found %d" % n)
    R.require_floor(3, "large-hole threshold comparisons")
    return R


def rule_refcount_twins(P):
    """node_headers keeps two counts per node: incoming pointers (linkNode / unlinkNode) and compute-table mentions (cacheNode / uncacheNode).
    The twins of a pair work on the same counter array; terminals are filtered out before a counter is touched; reaching zero — and only that —
    triggers lastUnlink / lastUncache; coming back from zero triggers reviveNode"""
    R = RuleResult("sibling.refcount-twins", "node_headers: link/unlink use incoming_counts, cache/uncache use cache_counts; each filters terminals (p<1) first; unlinkNode (uncacheNode) calls lastUnlink (lastUncache) exactly on the not-positive edge of isPositiveAfterDecrement; linkNode calls reviveNode exactly on the true edge of isZeroBeforeIncrement")
    spec = {
        "linkNode": ("incoming_counts", "isZeroBeforeIncrement", "reviveNode", True),
        "unlinkNode": ("incoming_counts", "isPositiveAfterDecrement", "lastUnlink", False),
        "cacheNode": ("cache_counts", "increment", None, None),
        "uncacheNode": ("cache_counts", "isPositiveAfterDecrement", "lastUncache", False),
    }
    found = 0
    for name, (arr, op, react, on_true) in spec.items():
        fs = [f for f in P.fns.values() if f["q"] == M + "node_headers::" + name and f.get("cfg")]
        if not fs:
            raise AnalysisBroken("sibling.refcount-twins: node_headers::%s not found" % name)
        f = fs[0]
        found += 1
        g = Graph(f)
        R.functions.add(f["inst"])
        hp = f["params"][0]["name"]
        counters = [k for k in g.nodes if k.kind == "call" and k.ev["q"].startswith(M + "counter_array::")]
        # which array
        R.paths += 1
        iid = "%s counts in %s with %s" % (name, arr, op)
        used = {(re.sub(r"\s+", "", str(k.ev.get("recv") or "")).replace("this->", ""), k.ev["q"].split("::")[-1]) for k in counters if k.ev["q"].split("::")[-1] not in ("get",)}
        if used == {(arr, op)}:
            R.ok(iid, where(f))
        else:
            R.fail(iid, where(f), Finding(R.rule, f["file"], f["q"], "array", "%s must update %s with %s and nothing else; it does %s" % (name, arr, op, sorted(used)), f["line"]))
        # terminal filter first
        R.paths += 1
        iid = "%s leaves terminals alone" % name
        guard = [b for b in g.nodes if b.kind == "branch" and b.cond and len(b.succ) == 2 and re.sub(r"\s+", "", b.cond["text"]) in ("%s<1" % hp, "%s<=0" % hp, "1>%s" % hp, "0>=%s" % hp)]
        ge = {(b.id, 1 if b.cond.get("neg") else 0) for b in guard}   # edges on which the handle IS a terminal
        upd = lambda k: k.kind == "call" and k.ev["q"].startswith(M + "counter_array::") and k.ev["q"].split("::")[-1] != "get"
        reach_term = set()
        for b in guard:
            te = 1 if b.cond.get("neg") else 0
            reach_term |= g.reach([s_ for s_, i in b.succ if i == te])
        # every update is behind the non-terminal edge: no path entry→update avoiding all guards' non-terminal edges … i.e. crossing a terminal edge
        bad = [k for k in g.nodes if upd(k) and (not guard or g.path(g.entry, lambda x, k=k: x.id == k.id, avoid_edge=lambda n, i: any(n.id == b.id for b in guard) and (n.id, i) not in ge) is not None)]
        if guard and not bad:
            R.ok(iid, where(f))
        else:
            R.fail(iid, where(f), Finding(R.rule, f["file"], f["q"], "terminal-filter", "a counter is updated for a handle that may be a terminal (no `%s<1` test before it): terminal handles are negative and index outside the counter arrays" % hp, f["line"]))
        if react:
            R.paths += 1
            iid = "%s calls %s exactly on the %s edge of %s" % (name, react, "true" if on_true else "false", op)
            tests = [b for b in g.nodes if b.kind == "branch" and b.cond and len(b.succ) == 2 and any(c.endswith("counter_array::" + op) for c in b.cond["calls"])]
            calls = [k for k in g.nodes if k.kind == "call" and k.ev["q"].endswith("::" + react)]
            ok = len(tests) == 1 and len(calls) >= 1
            if ok:
                b = tests[0]
                te = 1 if b.cond.get("neg") else 0          # edge on which op() returned true
                want = te if on_true else 1 - te
                other = 1 - want
                want_arm = g.reach([s_ for s_, i in b.succ if i == want])
                other_arm = g.reach([s_ for s_, i in b.succ if i == other])
                is_exit = lambda x: x.kind == "ret" or x.id == g.exit
                w0 = [s_ for s_, i in b.succ if i == want][0]
                ok = all(k.id in want_arm and k.id not in other_arm for k in calls) and (g.nodes[w0].id in {k.id for k in calls} or g.path(w0, is_exit, avoid=lambda x: x.id in {k.id for k in calls}) is None)
            if ok:
                R.ok(iid, where(f))
            else:
                R.fail(iid, where(f), Finding(R.rule, f["file"], f["q"], "reaction", "%s must be called on every path of the %s edge of %s and on no other path" % (react, "true" if on_true else "false", op), f["line"]))
    R.require_floor(11, "reference-count twin obligations")
    return R


def rule_heap_pop_order(P):
    """IndexedHeap (the priority queue behind the LOWEST_COST, LOWEST_MEMORY and LARC reordering schedules) keeps a key → slot map next to the heap.
    pop() moves the last item into slot 0 and records that, and marks the popped key as not in the heap.  With one item left both stores hit the
    same map entry: the `not in heap` mark must be the later one, or the popped key stays marked as queued and is never queued again"""
    R = RuleResult("sibling.heap-pop-order", "in every instantiation of IndexedHeap::pop the store `_indices[popped key] = NOT_IN_HEAP` is not followed by another store to _indices (it is the one that must win when the two keys coincide)")
    n = 0
    for f in sorted(P.fns.values(), key=lambda f: (f["file"], f["line"], f["inst"])):
        if not f.get("cfg") or "IndexedHeap" not in f["q"] or not f["q"].endswith("::pop"):
            continue
        g = Graph(f)
        stores = [k for k in g.nodes if k.kind == "store" and k.ev["member"].endswith("::_indices")]
        clear = [k for k in stores if re.sub(r"\s+", "", k.ev.get("rhs", "")) == "NOT_IN_HEAP"]
        if len(clear) != 1 or len(stores) < 2:
            raise AnalysisBroken("sibling.heap-pop-order: %s: expected one NOT_IN_HEAP store and a slot store to _indices, found %d / %d" % (f["inst"], len(clear), len(stores)))
        n += 1
        R.functions.add(f["inst"])
        R.paths += 1
        iid = "%s: the not-in-heap mark is the last store to the index map" % f["inst"][:70]
        later = [k for k in stores if k.id != clear[0].id and g.path(clear[0], lambda x, k=k: x.id == k.id) is not None]
        if not later:
            R.ok(iid, where(f, clear[0].line))
        else:
            R.fail(iid, where(f, clear[0].line), Finding(R.rule, f["file"], base_name(f["q"]), "clear-then-move",
                   "`%s = NOT_IN_HEAP` is followed by `%s = %s`: when one item is left the two keys are the same and the popped key ends up marked as still queued; a later push of it only updates a weight and the reordering schedule loses a pending inversion" % (
                       clear[0].ev.get("lhs"), later[0].ev.get("lhs"), later[0].ev.get("rhs")), clear[0].line))
    if n < 1:
        raise AnalysisBroken("sibling.heap-pop-order: IndexedHeap::pop not found")
    R.require_floor(1, "heap pop")
    return R


def rule_policy_reachability(P):
    """the image and saturation templates serve three kinds of state sets: boolean (handle 0 = not in the set), integer distance (negative terminal =
    unreachable, handle 0 = distance 0!) and EV+ distance (+infinity = unreachable).  What "unreachable" means is the policy's business
    (ATYPE::isUnreachable / areAllReachable / setUnreachable).  The template itself must therefore never read the raw child handle of a *set* node
    as a truth value, and never unpack a set node SPARSE_ONLY (which drops exactly the handle-0 children) — defect D21: saturation lost every
    distance-0 state of an integer-distance set, i.e. the initial states"""
    R = RuleResult("sibling.policy-reachability", "in prepost_set_mtrel and saturation_set_mtrel (all instantiations): a node of a set forest (arg1F / resF) is never unpacked SPARSE_ONLY and its child handles are never used as truth values; reachability is asked through the ATYPE policy")
    n = 0
    seen = set()
    for f in sorted(P.fns.values(), key=lambda f: (f["file"], f["line"], f["inst"])):
        if not f.get("cfg") or f["file"] not in ("operations/prepost_sets.cc", "operations/satur_sets.cc") or not re.search(r"(prepost_set_mtrel|saturation_set_mtrel)", f["q"]) or (f["file"], f["line"]) in seen:
            continue
        seen.add((f["file"], f["line"]))
        g = Graph(f)
        setnodes = {}
        for k in g.nodes:
            if k.kind == "ldef" and k.ev.get("rhs"):
                m = re.fullmatch(r"unpacked_node::(?:New|newFromNode|newWritable|newRedundant)\((?:this->)?(resF|arg1F),.*?(FULL_ONLY|SPARSE_ONLY|FULL_OR_SPARSE)?\)", re.sub(r"\s+", "", k.ev["rhs"]))
                if m:
                    setnodes[k.ev["var"]] = (m.group(2), k)
        setnodes.update({p_["name"]: (None, None) for p_ in f.get("params", []) if (p_.get("rec") or "").endswith("unpacked_node") and p_["name"] in ("C", "Cu", "nb")})
        for u, (mode, k) in sorted(setnodes.items()):
            if k is None:
                continue
            n += 1
            R.functions.add(f["inst"])
            R.paths += 1
            iid = "%s: set node `%s` unpacked %s" % (base_name(f["q"]).replace(M, "")[:50], u, mode)
            if mode == "SPARSE_ONLY":
                R.fail(iid, where(f, k.line), Finding(R.rule, f["file"], base_name(f["q"]), "sparse:" + u,
                       "a node of the set forest is unpacked SPARSE_ONLY: its handle-0 children are skipped, and for integer-distance sets handle 0 is distance 0 (the initial states), not `unreachable`", k.line))
            else:
                R.ok(iid, where(f, k.line))
        for b in g.nodes:
            if b.kind != "branch" or not b.cond or len(b.succ) != 2:
                continue
            m = re.fullmatch(r"!?(\w+)->down\(\w+\)", re.sub(r"\s+", "", b.cond["text"]))
            m2 = re.fullmatch(r"(?:0==(\w+)->down\(\w+\)|(\w+)->down\(\w+\)==0)", re.sub(r"\s+", "", b.cond["text"]))
            u = (m.group(1) if m else None) or ((m2.group(1) or m2.group(2)) if m2 else None)
            if u and u in setnodes:
                n += 1
                R.paths += 1
                R.functions.add(f["inst"])
                R.fail("%s: `%s` used as a truth value" % (base_name(f["q"]).replace(M, "")[:50], b.cond["text"]), where(f, b.line),
                       Finding(R.rule, f["file"], base_name(f["q"]), "truth:" + re.sub(r"\s+", "", b.cond["text"]),
                               "the child handle of set node `%s` is tested for zero instead of asking ATYPE::isUnreachable: handle 0 is `not in the set` only for boolean sets" % u, b.line))
    if n < 6:
        raise AnalysisBroken("sibling.policy-reachability: only %d set-node definitions found in the image / saturation templates, expected ≥6" % n)
    R.require_floor(6, "set-node uses in the image / saturation templates")
    return R


RULES = [rule_counter_width, rule_mirror_simplify, rule_swap_loops, rule_image_fire, rule_small_hole_threshold, rule_graph_diagonals, rule_large_hole_threshold, rule_refcount_twins, rule_heap_pop_order, rule_policy_reachability]
