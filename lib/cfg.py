"""Path rules over the CFGs exported by `msa --engine=facts`.

A function's CFG is flattened into *nodes*: one per exported event (call, construct, new, delete,
throw, ret, store, div, init) in block order, plus one BRANCH node per block carrying the block's
atomic branch condition and its successor list.  Edges leaving a BRANCH node carry the successor
index (for two-way branches 0 = condition true, 1 = condition false; for switches the order of
clang's successor list, with the target block's case label attached).  A `throw` node has no
successors: every rule below quantifies over *normal* paths unless it says otherwise."""


class Node:
    __slots__ = ("id", "block", "ev", "succ", "kind", "cond", "labels", "pred")

    def __init__(self, nid, block, ev, kind):
        self.id = nid
        self.block = block
        self.ev = ev          # event dict (None for branch / entry / exit nodes)
        self.kind = kind      # event kind, or 'branch', 'exit'
        self.succ = []        # [(node id, branch index)]
        self.pred = []
        self.cond = None      # for branch nodes: {'text','calls','refs'} or None
        self.labels = None

    @property
    def line(self):
        if self.ev is not None:
            return self.ev.get("line")
        return None

    def __repr__(self):
        if self.kind == "branch":
            return "<branch B%d %s>" % (self.block, self.cond["text"] if self.cond else "")
        if self.ev is None:
            return "<%s B%d>" % (self.kind, self.block)
        return "<%s %s @%s>" % (self.kind, self.ev.get("q") or self.ev.get("text") or self.ev.get("member") or self.ev.get("code") or "", self.ev.get("line"))


class Graph:
    def __init__(self, fn):
        cfg = fn.get("cfg")
        if not cfg:
            raise ValueError("no CFG exported for %s" % fn.get("inst"))
        self.fn = fn
        self.nodes = []
        first = {}   # block id -> first node id
        last = {}    # block id -> branch node id
        blocks = {b["id"]: b for b in cfg["blocks"]}
        self.blocks = blocks
        for bid, b in blocks.items():
            prev = None
            for ev in b["ev"]:
                n = Node(len(self.nodes), bid, ev, ev["k"])
                self.nodes.append(n)
                if prev is None:
                    first[bid] = n.id
                else:
                    prev.succ.append((n.id, 0))
                prev = n
            br = Node(len(self.nodes), bid, None, "exit" if bid == cfg["exit"] else "branch")
            br.cond = b.get("cond")
            if b.get("tline") is not None:
                br.ev = {"line": b.get("tline"), "k": "branch"}
            self.nodes.append(br)
            if prev is None:
                first[bid] = br.id
            else:
                prev.succ.append((br.id, 0))
            last[bid] = br.id
        for bid, b in blocks.items():
            br = self.nodes[last[bid]]
            br.labels = []
            for i, s in enumerate(b["succ"]):
                if s is None or s < 0:
                    br.labels.append(None)
                    continue
                br.succ.append((first[s], i))
                br.labels.append(blocks[s].get("label"))
        # a throw ends the path
        for n in self.nodes:
            if n.kind == "throw":
                n.succ = []
        for n in self.nodes:
            for s, i in n.succ:
                self.nodes[s].pred.append((n.id, i))
        self.entry = first[cfg["entry"]]
        self.exit = last[cfg["exit"]]

    # ---- selection --------------------------------------------------------------------------
    def where(self, pred):
        return [n for n in self.nodes if pred(n)]

    def calls(self, *names, recv=None):
        """call/construct nodes whose resolved callee's qualified name ends with one of `names`"""
        out = []
        for n in self.nodes:
            if n.kind in ("call", "construct") and any(qmatch(n.ev["q"], nm) for nm in names):
                if recv is None or n.ev.get("recv") == recv:
                    out.append(n)
        return out

    # ---- reachability ------------------------------------------------------------------------
    def reach(self, starts, avoid=None, avoid_edge=None, include_start=True):
        """nodes reachable from `starts` without entering a node with avoid(n) and without
        following an edge with avoid_edge(n, index)"""
        seen = set()
        stack = []
        for s in starts:
            sid = s.id if isinstance(s, Node) else s
            stack.append(sid)
        init = set(stack)
        while stack:
            x = stack.pop()
            if x in seen:
                continue
            n = self.nodes[x]
            if avoid is not None and avoid(n) and not (include_start and x in init):
                continue
            seen.add(x)
            for s, i in n.succ:
                if avoid_edge is not None and avoid_edge(n, i):
                    continue
                if s not in seen:
                    stack.append(s)
        return seen

    def path(self, start, target_pred, avoid=None, avoid_edge=None):
        """a witness path (list of nodes) from start to a node with target_pred, or None"""
        from collections import deque
        sid = start.id if isinstance(start, Node) else start
        prev = {sid: None}
        dq = deque([sid])
        while dq:
            x = dq.popleft()
            n = self.nodes[x]
            if x != sid and avoid is not None and avoid(n):
                continue
            if target_pred(n) and x != sid:
                out = []
                while x is not None:
                    out.append(self.nodes[x])
                    x = prev[x]
                return out[::-1]
            for s, i in n.succ:
                if avoid_edge is not None and avoid_edge(n, i):
                    continue
                if s not in prev:
                    prev[s] = x
                    dq.append(s)
        if target_pred(self.nodes[sid]):
            return [self.nodes[sid]]
        return None

    def path_flags(self, start, target_pred, flags, avoid=None, avoid_edge=None):
        """like path(), but tracks the listed local bool variables (assigned literal true/false, tested by
        `if (flag)` / `if (!flag)`) and prunes branch arms that contradict their known value"""
        from collections import deque
        flags = list(flags)
        sid = start.id if isinstance(start, Node) else start
        s0 = (sid, tuple([None] * len(flags)))
        prev = {s0: None}
        dq = deque([s0])
        while dq:
            st = dq.popleft()
            x, vals = st
            n = self.nodes[x]
            if st != s0 and avoid is not None and avoid(n):
                continue
            if target_pred(n) and st != s0:
                out = []
                while st is not None:
                    out.append(self.nodes[st[0]])
                    st = prev[st]
                return out[::-1]
            vals = list(vals)
            if n.kind == "ldef" and n.ev["var"] in flags:
                r = n.ev.get("rhs", "").strip()
                vals[flags.index(n.ev["var"])] = True if r == "true" else (False if r == "false" else None)
            elif n.kind == "call":
                for v in n.ev.get("defs", []):
                    if v in flags:
                        vals[flags.index(v)] = None
            tested = None
            if n.kind == "branch" and n.cond and len(n.succ) == 2 and n.cond.get("op") == "truth" and len(n.cond["l"]["refs"]) == 1 and n.cond["l"]["refs"][0] in flags \
                    and n.cond["l"]["text"].strip("!() ") == n.cond["l"]["refs"][0]:
                tested = flags.index(n.cond["l"]["refs"][0])
            for s, i in n.succ:
                if avoid_edge is not None and avoid_edge(n, i):
                    continue
                nv = list(vals)
                if tested is not None:
                    arm_value = (i == 0) != bool(n.cond.get("neg"))   # value of the flag on this arm
                    if vals[tested] is not None and vals[tested] != arm_value:
                        continue
                    nv[tested] = arm_value
                ns = (s, tuple(nv))
                if ns not in prev:
                    prev[ns] = st
                    dq.append(ns)
        return None

    def bypass(self, sink_pred, guard_pred=None, guard_edge=None, start=None):
        """witness path entry→sink that avoids every guard node / guard edge; None when every
        path to a sink passes a guard (the must-pass-through rule)"""
        return self.path(self.entry if start is None else start, sink_pred, avoid=guard_pred, avoid_edge=guard_edge)

    def escapes(self, start_pred, must_pred):
        """for every node with start_pred: a witness normal path from it to the function exit
        that avoids all must_pred nodes ("B must follow A on every normal path")"""
        out = []
        for n in self.nodes:
            if start_pred(n):
                p = self.path(n, lambda m: m.id == self.exit, avoid=must_pred)
                if p:
                    out.append((n, p))
        return out

    # ---- branch helpers ------------------------------------------------------------------------
    def leads_to_throw(self, node_id, limit=12):
        """true when following the straight-line code from node_id a throw is met before any branch with >1 live successors"""
        x = node_id
        for _ in range(limit * 8):
            n = self.nodes[x]
            if n.kind == "throw":
                return n
            if len(n.succ) != 1:
                return None
            x = n.succ[0][0]
        return None

    def throwing_tests(self, cond_pred, code=None):
        """branch nodes whose condition satisfies cond_pred and one of whose arms goes straight to a
        throw (of the given error code, if any); returns [(branch node, index of the throwing arm, throw node)]"""
        out = []
        for n in self.nodes:
            if n.kind != "branch" or not n.cond or len(n.succ) < 2:
                continue
            if not cond_pred(n.cond):
                continue
            for s, i in n.succ:
                t = self.leads_to_throw(s)
                if t is not None and (code is None or t.ev.get("code") == code):
                    out.append((n, i, t))
        return out


def qmatch(q, name):
    """qualified-name suffix match on '::' boundaries: qmatch('MEDDLY::forest::linkNode', 'forest::linkNode')"""
    if q == name:
        return True
    return q.endswith("::" + name) if not name.startswith("::") else q.endswith(name)


def show_path(p, limit=12):
    items = []
    for n in p:
        if n.kind == "branch":
            if n.cond:
                items.append("[%s]" % n.cond["text"][:60])
        elif n.kind == "exit":
            items.append("<exit>")
        else:
            nm = n.ev.get("q") or n.ev.get("member") or n.ev.get("text") or n.ev.get("code") or ""
            items.append("%s %s@%s" % (n.kind, nm.split("::")[-1][:40], n.ev.get("line")))
    if len(items) > limit:
        items = items[: limit // 2] + ["…"] + items[-limit // 2:]
    return " → ".join(items)
