"""storage — packed-node layout agreement and stale chunk pointers in storage/simple.cc and
storage/ct_styles.cc (DESIGN §2.6 layout, §2.10 chunkptr)."""
import re

from cfg import Graph, qmatch, show_path
from core import Finding, RuleResult
from frontend import AnalysisBroken, where, base_name

M = "MEDDLY::"


def _strip(t):
    while t.startswith("(") and t.endswith(")"):
        inner = t[1:-1]
        d = 0
        bad = False
        for ch in inner:
            d += ch == "("
            d -= ch == ")"
            if d < 0:
                bad = True
                break
        if bad or d:
            break
        t = inner
    return t


def _norm(t, ptrs, sparse_vars):
    """linear form of a region pointer over C (the chunk address), the members @down_start / @slots_per_edge, N (any count local) and
    S (the sparse bit); pointer locals are replaced by their own forms, so the result does not depend on what the locals are called"""
    t = re.sub(r"this->(\w+)", r"@\1", t)
    t = re.sub(r"\(\s*(?:const\s+)?\w+\s*\*\s*\)", "", t)
    t = re.sub(r"\s+", "", t)
    t = _strip(t)
    m = re.match(r"^@slots_per_edge\?(.*):(0|nullptr)$", t)
    marked = bool(m)
    if m:
        t = _strip(m.group(1))

    def sub(mm):
        w = mm.group(0)
        if w.startswith("@") or w[0].isdigit():
            return w
        if w in ptrs:
            return ptrs[w]
        if w in sparse_vars:
            return "S"
        return "N"
    t = re.sub(r"@?\w+", sub, t)
    return t, marked


R0 = "C+@down_start"
DOWN_FORMS = {R0}
INDEX_FORMS = {R0 + "+N"}
EDGE_SPARSE = {R0 + "+N+N", R0 + "+2*N"}
EDGE_FULL = {R0 + "+N"}
EDGE_EITHER = {R0 + "+(S?2*N:N)"}
ROLE_BY_NAME = {"down": "down", "dnptr": "down", "index": "index", "edge": "edge"}


def rule_layout(P):
    R = RuleResult("codec.layout", "every accessor of a packed node in storage/simple.cc computes the region bases as the same linear forms over the chunk address: down = chunk+down_start; sparse: index = down+n, edge values = index+n; full: edge values = down+size")
    nacc = 0
    for f in sorted(P.fns.values(), key=lambda f: (f["line"], f["inst"])):
        if f["file"] != "storage/simple.cc" or not f.get("cfg"):
            continue
        g = Graph(f)
        alldefs = sorted([n for n in g.nodes if n.kind == "ldef" and n.ev.get("ptr")], key=lambda n: n.line)
        if not alldefs:
            continue
        name = base_name(f["q"]).split("::")[-1]
        sparse_vars = {n.ev["var"] for n in g.nodes if n.kind == "ldef" and re.search(r"\bisSparse\s*\(|<\s*0", n.ev.get("rhs", "")) and not n.ev.get("ptr")}
        sparse_vars |= {p["name"] for p in f.get("params", []) if "sparse" in p["name"]}
        ptrs = {p["name"]: "C" for p in f.get("params", []) if any(re.match(r"^\(?%s\b" % re.escape(p["name"]), re.sub(r"this->", "", d.ev["rhs"])) for d in alldefs)}
        forms = {}
        for d in alldefs:
            if (d.ev.get("callq") or "").endswith("getChunkAddress"):
                ptrs[d.ev["var"]] = "C"
                continue
            form, marked = _norm(d.ev["rhs"], ptrs, sparse_vars)
            forms[d.id] = (form, marked)
            # a local with one definition (or the same form in every definition) stands for that form from then on
            prev = ptrs.get(d.ev["var"])
            if prev is None and form.startswith("C"):
                ptrs[d.ev["var"]] = form
            elif prev is not None and prev != form:
                ptrs[d.ev["var"]] = "?" + d.ev["var"]
        defs = [d for d in alldefs if d.id in forms and (forms[d.id][0].startswith(R0) or d.ev["var"] in ROLE_BY_NAME)]
        if not defs:
            continue
        nacc += 1
        R.functions.add(f["inst"])
        sparse_br = [n for n in g.nodes if n.kind == "branch" and n.cond and len(n.succ) == 2 and n.cond.get("op") == "truth" and
                     (any(r in sparse_vars for r in n.cond["l"]["refs"]) or any(c.endswith("isSparse") for c in n.cond["calls"]))]
        for d in defs:
            form, marked = forms[d.id]
            var = d.ev["var"]
            iid = "%s%s: %s = %s" % (name, f["sig"][:24], var, form)
            # the role of the pointer: by the conventional local names where they are used, else by what the definition itself shows
            # (edge-value pointers are conditional on slots_per_edge or cast to char*)
            role = ROLE_BY_NAME.get(var) or ("edge" if marked or re.search(r"\(\s*char\s*\*\s*\)", d.ev["rhs"]) or form in EDGE_EITHER | EDGE_SPARSE else
                                             "down" if form in DOWN_FORMS else "index")
            ok = False
            want = ""
            if role == "down":
                ok = form in DOWN_FORMS or (name == "dumpInternalNode")
                want = "chunk + down_start"
            elif role == "index":
                ok = form in INDEX_FORMS or (name == "dumpInternalNode" and form.endswith("+N"))
                want = "down + <number of entries>"
            else:
                arm = None
                for b in sparse_br:
                    t = 1 if b.cond.get("neg") else 0
                    on_t = d.id in g.reach([s for s, i in b.succ if i == t])
                    on_f = d.id in g.reach([s for s, i in b.succ if i != t])
                    if on_t and not on_f:
                        arm = "sparse"
                    elif on_f and not on_t:
                        arm = "full"
                if name == "makeSparseNode":
                    arm = "sparse"
                if name == "makeFullNode":
                    arm = "full"
                if form in EDGE_EITHER:
                    ok = True
                elif arm == "sparse":
                    ok = form in EDGE_SPARSE
                    want = "index + <number of entries> (sparse node)"
                elif arm == "full":
                    ok = form in EDGE_FULL
                    want = "down + size (full node)"
                else:
                    ok = form in EDGE_SPARSE | EDGE_FULL
                    want = "down + size or index + nnz"
            if ok:
                R.ok(iid, where(f, d.line))
            else:
                R.fail(iid, where(f, d.line), Finding(R.rule, f["file"], base_name(f["q"]), "%s-region" % role,
                       "region base `%s = %s` (= %s) differs from the layout every other accessor uses (%s): the node is read back from the wrong slots" % (var, d.ev["rhs"], form, want), d.line))
    if nacc < 9:
        raise AnalysisBroken("codec.layout: expected at least 9 accessors with region pointers in storage/simple.cc, found %d" % nacc)
    R.require_floor(25, "region-base definitions")
    return R


def rule_threshold_first(P):
    """the grid managers classify holes as 'large' against the largest request seen so far; when a larger request arrives the threshold is raised and the
    large holes are re-inserted.  The raise must come first: every call that (transitively) reads the threshold inside the `request > threshold` block
    is preceded by the store, otherwise holes smaller than the new request stay in the large list and are handed out unchecked"""
    import json as _json
    R = RuleResult("storage.threshold-before-reinsert", "in a memory manager's requestChunk, inside the block guarded by `request > M` that stores the request into member M, the store precedes every call that reads M (directly or through callees)")
    reads_memo = {}

    def reads(q, member, depth=0):
        key = (q, member)
        if key in reads_memo:
            return reads_memo[key]
        reads_memo[key] = False
        out = False
        for cf in P.by_q.get(q, []):
            if not cf.get("cfg"):
                continue
            if re.search(r"(?<!\w)%s(?!\w)" % re.escape(member), _json.dumps(cf["cfg"])):
                out = True
                break
            if depth < 3:
                for b in cf["cfg"]["blocks"]:
                    for e in b["ev"]:
                        if e["k"] == "call" and e["q"].startswith(M) and reads(e["q"], member, depth + 1):
                            out = True
                            break
                    if out:
                        break
            if out:
                break
        reads_memo[key] = out
        return out
    n = 0
    seen = set()
    for f in sorted(P.fns.values(), key=lambda f: (f["file"], f["line"], f["inst"])):
        if not f.get("cfg") or not f["file"].startswith("memory_managers/") or not f["q"].endswith("::requestChunk"):
            continue
        if (f["file"], f["line"]) in seen:
            continue
        seen.add((f["file"], f["line"]))
        g = Graph(f)
        for b in g.nodes:
            if b.kind != "branch" or not b.cond or len(b.succ) != 2 or b.cond.get("op") not in (">", "<"):
                continue
            l, r = b.cond.get("l") or {}, b.cond.get("r") or {}
            mem = [x for x in (l, r) if x.get("text", "").startswith("this->")]
            par = [x for x in (l, r) if not x.get("text", "").startswith("this->")]
            if len(mem) != 1 or len(par) != 1 or not mem[0].get("refs"):
                continue
            member = mem[0]["refs"][0]
            stores = [k for k in g.nodes if k.kind == "store" and k.ev["member"].split("::")[-1] == member and re.sub(r"\s+", "", k.ev.get("rhs", "")) == re.sub(r"\s+", "", par[0]["text"])]
            if par[0]["text"] not in [x["name"] for x in f.get("params", [])]:
                continue
            ti = 1 if b.cond.get("neg") else 0
            arm = g.reach([s_ for s_, i in b.succ if i == ti]) - g.reach([s_ for s_, i in b.succ if i != ti])
            stores = [k for k in stores if k.id in arm]
            readers = [k for k in g.nodes if k.id in arm and k.kind == "call" and k.ev["q"].startswith(M) and reads(k.ev["q"], member)]
            if not stores and not readers:
                continue
            n += 1
            R.functions.add(f["inst"])
            if not stores:
                R.paths += 1
                R.fail("%s: `%s` raised inside the `%s` block" % (base_name(f["q"]).replace(M, "")[:50], member, b.cond["text"]), where(f, b.line),
                       Finding(R.rule, f["file"], base_name(f["q"]), "never-raised:" + member, "the block guarded by `%s` re-classifies holes through %s but never stores the request into `%s`: the threshold stays behind the largest request" % (
                           b.cond["text"], sorted({k.ev["q"].split("::")[-1] for k in readers}), member), b.line, inst=f["inst"]))
                continue
            for k in readers:
                R.paths += 1
                iid = "%s: `%s = %s` precedes %s" % (base_name(f["q"]).replace(M, "")[:50], member, par[0]["text"], k.ev["q"].split("::")[-1])
                first = [s_ for s_, i in b.succ if i == ti][0]
                sids = {st.id for st in stores}
                if first in sids or (first != k.id and g.path(first, lambda x, k=k: x.id == k.id, avoid=lambda x: x.id in sids) is None):
                    R.ok(iid, where(f, k.line))
                else:
                    R.fail(iid, where(f, k.line), Finding(R.rule, f["file"], base_name(f["q"]), "stale:%s@%s" % (member, k.ev["q"].split("::")[-1]),
                           "%s reads `%s` while it still holds the old value: holes are re-classified against the previous largest request and holes smaller than this request stay in the large list, from which requestChunk serves without a size check" % (k.ev["q"].split("::")[-1], member), k.line, inst=f["inst"]))
            if not readers:
                R.ok("%s: `%s` raised; no reader of it in the block" % (base_name(f["q"]).replace(M, "")[:50], member), where(f, b.line))
    if n < 2:
        raise AnalysisBroken("storage.threshold-before-reinsert: expected the two grid managers' requestChunk with a `request > max_request` block, found %d" % n)
    R.require_floor(2, "threshold raises")
    return R


# hole managers: (functions that take a hole out of the tracked set, functions / events that put one in) — confirmed by reading each manager
COALESCE_VOCAB = {
    "array_plus_grid": ({"stopTrackingHole"}, {"startTrackingHole"}),
    "original_grid": ({"removeFromGrid"}, {"addToGrid"}),
    # the heap manager tracks small holes by a slot count only, large ones in the heap, and keeps one `current_hole` outside both
    "heap_manager": ({"removeHeapNode", "decSmallSlots"}, {"incSmallSlots", "makeRoot", "setLeft", "setRight"}),
}


def rule_coalesce(P):
    """recycleChunk of the three hole-based managers: the freed chunk is tagged as a hole first; a neighbouring hole is taken out of the tracked
    set before it is absorbed; the grown hole is re-tagged; and what remains is put into the tracked set on every path that does not give it
    back to the end of the array.  A neighbour that stays tracked after being absorbed is handed out a second time (overlapping chunks)."""
    R = RuleResult("storage.coalesce-protocol", "recycleChunk of every hole-based memory manager: tag first (setHoleSize before any isHole test); untrack a neighbour before `numSlots += getHoleSize(neighbour)`; setHoleSize again after it; track the final hole on every path except the array-end give-back")
    n = 0
    seen = set()
    for f in sorted(P.fns.values(), key=lambda f: (f["file"], f["line"], f["inst"])):
        if not f.get("cfg") or not f["file"].startswith("memory_managers/") or not f["q"].endswith("::recycleChunk") or (f["file"], f["line"]) in seen:
            continue
        cls = re.sub(r"<.*", "", (f.get("cls") or "").replace(M, ""))
        if cls not in COALESCE_VOCAB:
            continue
        seen.add((f["file"], f["line"]))
        untrack, track = COALESCE_VOCAB[cls]
        g = Graph(f)
        n += 1
        R.functions.add(f["inst"])
        hp, np_ = f["params"][0]["name"], f["params"][1]["name"]
        callnm = lambda k: k.kind == "call" and k.ev["q"].startswith(M) and k.ev["q"].split("::")[-1]
        tag = lambda k: callnm(k) == "setHoleSize" and [_nzs(a) for a in k.ev["args"]] == [hp, np_]
        is_exit = lambda k: k.kind == "ret" or k.id == g.exit
        # (a) tag first
        R.paths += 1
        iid = "%s::recycleChunk: the chunk is tagged as a hole before any neighbour test" % cls
        p_ = g.path(g.entry, lambda k: callnm(k) == "isHole", avoid=tag)
        (R.ok(iid, where(f)) if p_ is None else R.fail(iid, where(f), Finding(R.rule, f["file"], base_name(f["q"]), "tag-first", "a neighbour is tested with isHole before setHoleSize(%s, %s): the boundary tags of the freed chunk are not yet written" % (hp, np_), f["line"], show_path(p_))))
        absorbs = [k for k in g.nodes if k.kind == "ldef" and k.ev["var"] == np_ and k.ev.get("op") == "+=" and re.search(r"getHoleSize\((\w+)\)", _nzs(k.ev.get("rhs", "")))]
        if len(absorbs) < 2:
            raise AnalysisBroken("storage.coalesce-protocol: %s::recycleChunk: expected a left and a right `%s += getHoleSize(x)`, found %d" % (cls, np_, len(absorbs)))
        for a in sorted(absorbs, key=lambda k: k.line):
            x = re.search(r"getHoleSize\((\w+)\)", _nzs(a.ev["rhs"])).group(1)
            # (b) untrack before absorb
            R.paths += 1
            iid = "%s::recycleChunk: `%s` leaves the tracked set before it is absorbed" % (cls, x)
            un = lambda k, x=x: callnm(k) in untrack and any(re.search(r"(?<!\w)%s(?!\w)" % x, arg) for arg in k.ev["args"])
            # the heap manager's current hole is in neither structure: the edge on which `current_hole != x` is false needs no untrack
            cur = [b for b in g.nodes if b.kind == "branch" and b.cond and len(b.succ) == 2 and _nzs(b.cond["text"].replace("this->", "")) in ("current_hole!=%s" % x, "%s!=current_hole" % x)]
            cur_false = {(b.id, 0 if b.cond.get("neg") else 1) for b in cur}
            p_ = g.path(g.entry, lambda k, a=a: k.id == a.id, avoid=un, avoid_edge=lambda k, i: (k.id, i) in cur_false)
            if p_ is None:
                R.ok(iid, where(f, a.line))
            else:
                R.fail(iid, where(f, a.line), Finding(R.rule, f["file"], base_name(f["q"]), "untrack:" + x,
                       "`%s` is absorbed into the freed chunk while it is still in the manager's tracked set (%s not called for it): its slots can be handed out again although they now belong to the merged hole" % (x, "/".join(sorted(untrack))), a.line, show_path(p_)))
            # (e) a manager with a designated current hole: when the absorbed neighbour *is* the current hole, the designation follows the merged hole
            if cur:
                R.paths += 1
                iid = "%s::recycleChunk: if `%s` is the current hole, the current hole becomes the merged hole" % (cls, x)

                def unequal_arm(k, i, x=x):
                    if k.kind != "branch" or not k.cond or len(k.succ) != 2:
                        return False
                    t = _nzs(k.cond["text"].replace("this->", ""))
                    pos = 1 if k.cond.get("neg") else 0      # edge on which the un-negated atom holds
                    if t.lstrip("!") in ("current_hole!=%s" % x, "%s!=current_hole" % x):
                        return i == pos
                    if t.lstrip("!") in ("current_hole==%s" % x, "%s==current_hole" % x):
                        return i != pos
                    return False
                follows = lambda k, x=x: (k.kind == "ldef" and k.ev["var"] == hp and _nzs(k.ev.get("rhs", "")) == x) or (k.kind == "store" and (k.ev.get("member") or "").endswith("current_hole"))
                starts = [s_ for b in cur for s_, i in b.succ if not unequal_arm(b, i)]
                p_ = None
                for st in starts:
                    p_ = p_ or (None if follows(g.nodes[st]) else g.path(st, is_exit, avoid=follows, avoid_edge=unequal_arm))
                if p_ is None:
                    R.ok(iid, where(f, a.line))
                else:
                    R.fail(iid, where(f, a.line), Finding(R.rule, f["file"], base_name(f["q"]), "current-follows:" + x,
                           "when the absorbed neighbour `%s` is the manager's current hole, a path leaves recycleChunk with current_hole still naming `%s` — an address inside the merged hole, which is then also filed in the heap: the same slots are handed out twice" % (x, x), a.line, show_path(p_)))
            # (c) re-tag after absorb
            R.paths += 1
            iid = "%s::recycleChunk: the hole is re-tagged after absorbing `%s`" % (cls, x)
            p_ = g.path(a, lambda k: is_exit(k) or callnm(k) in track or callnm(k) == "recycleHoleInArray", avoid=tag)
            if p_ is None:
                R.ok(iid, where(f, a.line))
            else:
                R.fail(iid, where(f, a.line), Finding(R.rule, f["file"], base_name(f["q"]), "retag:" + x,
                       "after `%s += getHoleSize(%s)` the hole is used (tracked, given back or left) without setHoleSize(%s, %s): its tags still say the old size" % (np_, x, hp, np_), a.line, show_path(p_)))
        # (d) the final hole is tracked
        R.paths += 1
        iid = "%s::recycleChunk: the final hole enters the tracked set on every path except the array-end give-back" % cls
        give = [b for b in g.nodes if b.kind == "branch" and b.cond and len(b.succ) == 2 and any(c.endswith("recycleHoleInArray") for c in b.cond["calls"])]
        give_true = {(b.id, 1 if b.cond.get("neg") else 0) for b in give}
        curh = [b for b in g.nodes if b.kind == "branch" and b.cond and len(b.succ) == 2 and _nzs(b.cond["text"].replace("this->", "")) in ("%s==current_hole" % hp, "current_hole==%s" % hp)]
        cur_true = {(b.id, 1 if b.cond.get("neg") else 0) for b in curh}
        p_ = g.path(g.entry, is_exit, avoid=lambda k: callnm(k) in track, avoid_edge=lambda k, i: (k.id, i) in give_true or (k.id, i) in cur_true)
        if p_ is None and give:
            R.ok(iid, where(f))
        else:
            R.fail(iid, where(f), Finding(R.rule, f["file"], base_name(f["q"]), "track-final", "recycleChunk can return without putting the hole into the tracked set (%s): the memory is lost to later requests, or — if a stale entry remains — served twice" % "/".join(sorted(track)), f["line"], show_path(p_) if p_ else None))
    if n < 3:
        raise AnalysisBroken("storage.coalesce-protocol: expected the three hole managers' recycleChunk, found %d" % n)
    R.require_floor(18, "coalescing obligations")
    return R


def rule_serve(P):
    """requestChunk of the two grid managers: a hole taken from the lists / grid leaves the tracked set before it is returned, and when it is larger
    than the request the surplus is cut off (clearHole at the request size) and handed to recycleChunk — never left attached to the served chunk's tags"""
    R = RuleResult("storage.serve-protocol", "requestChunk of the grid managers: every returned hole that did not come from allocateFromArray was untracked first; on the `leftover > 0` edge clearHole(h, request) and recycleChunk(h + request, leftover) both precede the return")
    n = 0
    seen = set()
    for f in sorted(P.fns.values(), key=lambda f: (f["file"], f["line"], f["inst"])):
        if not f.get("cfg") or not f["file"].startswith("memory_managers/") or not f["q"].endswith("::requestChunk") or (f["file"], f["line"]) in seen:
            continue
        cls = re.sub(r"<.*", "", (f.get("cls") or "").replace(M, ""))
        if cls not in ("array_plus_grid", "original_grid"):
            continue
        seen.add((f["file"], f["line"]))
        untrack, _ = COALESCE_VOCAB[cls]
        g = Graph(f)
        n += 1
        R.functions.add(f["inst"])
        req = f["params"][0]["name"]
        callnm = lambda k: k.kind == "call" and k.ev["q"].startswith(M) and k.ev["q"].split("::")[-1]
        rets = [k for k in g.nodes if k.kind == "ret" and re.fullmatch(r"\w+", _nzs(k.ev.get("text", ""))) and not _nzs(k.ev["text"]).isdigit()]
        if not rets:
            raise AnalysisBroken("storage.serve-protocol: %s::requestChunk returns no variable" % cls)
        hv = _nzs(rets[0].ev["text"])
        fresh = lambda k: k.kind == "ldef" and k.ev["var"] == hv and "allocateFromArray" in (k.ev.get("rhs") or "")
        un = lambda k: callnm(k) in untrack and [_nzs(a) for a in k.ev["args"]] == [hv]
        for r in rets:
            R.paths += 1
            iid = "%s::requestChunk: `return %s` at line %s hands out a hole that left the tracked set (or fresh array space)" % (cls, hv, r.line)
            p_ = g.path(g.entry, lambda k, r=r: k.id == r.id, avoid=lambda k: un(k) or fresh(k))
            if p_ is None:
                R.ok(iid, where(f, r.line))
            else:
                R.fail(iid, where(f, r.line), Finding(R.rule, f["file"], base_name(f["q"]), "serve-tracked",
                       "a hole is returned to the caller while it is still in the tracked set (%s(%s) not called): the same memory will be served again" % ("/".join(sorted(untrack)), hv), r.line, show_path(p_)))
        lo = [b for b in g.nodes if b.kind == "branch" and b.cond and len(b.succ) == 2 and re.fullmatch(r"(\w+)>0", _nzs(b.cond["text"])) and
              any(k.kind == "ldef" and k.ev["var"] == re.fullmatch(r"(\w+)>0", _nzs(b.cond["text"])).group(1) and "getHoleSize" in (k.ev.get("rhs") or "") for k in g.nodes)]
        if len(lo) != 1:
            raise AnalysisBroken("storage.serve-protocol: %s::requestChunk: the `leftover > 0` test was not found" % cls)
        b = lo[0]
        lv = re.fullmatch(r"(\w+)>0", _nzs(b.cond["text"])).group(1)
        te = 1 if b.cond.get("neg") else 0
        start = [s_ for s_, i in b.succ if i == te][0]
        cut = lambda k: callnm(k) == "clearHole" and [_nzs(a) for a in k.ev["args"]] == [hv, req]
        back = lambda k: callnm(k) == "recycleChunk" and [_nzs(a) for a in k.ev["args"]] == ["%s+%s" % (hv, req), lv]
        is_ret = lambda k: k.kind == "ret" or k.id == g.exit
        for what, pred, sink in (("clearHole(%s, %s)" % (hv, req), cut, "cut"), ("recycleChunk(%s + %s, %s)" % (hv, req, lv), back, "give-back")):
            R.paths += 1
            iid = "%s::requestChunk: a surplus is split off by %s" % (cls, what)
            first = g.nodes[start]
            p_ = None if pred(first) else g.path(start, is_ret, avoid=pred)
            if p_ is None:
                R.ok(iid, where(f, b.line))
            else:
                R.fail(iid, where(f, b.line), Finding(R.rule, f["file"], base_name(f["q"]), sink,
                       "with a surplus of `%s` slots the chunk is returned without %s: the surplus is lost or stays inside the served chunk's hole tags" % (lv, what), b.line, show_path(p_)))
        R.paths += 1
        iid = "%s::requestChunk: the cut precedes the give-back" % cls
        p_ = g.path(start, back, avoid=cut)
        (R.ok(iid, where(f, b.line)) if p_ is None or cut(g.nodes[start]) else R.fail(iid, where(f, b.line), Finding(R.rule, f["file"], base_name(f["q"]), "cut-first",
            "recycleChunk of the surplus runs before clearHole: the surplus is merged straight back into the chunk being served", b.line, show_path(p_))))
    if n < 2:
        raise AnalysisBroken("storage.serve-protocol: expected the two grid managers, found %d" % n)
    R.require_floor(10, "serve obligations")
    return R


def _nzs(t):
    return re.sub(r"\s+", "", t or "")


def rule_singleton_scan(P):
    """a full-stored node of size s says only that its last non-transparent child sits at index s-1; how many *other* children are non-transparent can
    be learnt only by reading the slots.  In the full-stored branch of isSingletonNode every `return false` therefore rests on a slot that was read and
    found non-transparent — never on the size alone (a lone child at index 4 is stored full with size 5 under the FULL_ONLY policy).  Two independent
    seeds (C01a, C02b) put `if (size > 2) return false` here."""
    from rules_dispatch import _context
    R = RuleResult("codec.singleton-scan", "in the full-stored branch of simple_separated::isSingletonNode every `return false` is control-dependent on a comparison that reads a child slot; the sparse branch may decide on the stored count alone")
    fs = [f for f in P.fns.values() if f["q"].endswith("simple_separated::isSingletonNode") and f.get("cfg")]
    if not fs:
        raise AnalysisBroken("codec.singleton-scan: simple_separated::isSingletonNode not found")
    f = fs[0]
    g = Graph(f)
    R.functions.add(f["inst"])
    sparse_vars = {n.ev["var"] for n in g.nodes if n.kind == "ldef" and re.search(r"\bisSparse\s*\(", n.ev.get("rhs", ""))}
    ptrs = {n.ev["var"] for n in g.nodes if n.kind == "ldef" and n.ev.get("ptr")}
    sp = [b for b in g.nodes if b.kind == "branch" and b.cond and len(b.succ) == 2 and (any(r in sparse_vars for r in b.cond.get("refs", [])) or any(c.endswith("isSparse") for c in b.cond["calls"]))]
    if len(sp) != 1:
        raise AnalysisBroken("codec.singleton-scan: the sparse / full test of isSingletonNode was not found")
    b = sp[0]
    te = 1 if b.cond.get("neg") else 0
    sparse_arm = g.reach([s_ for s_, i in b.succ if i == te]) - g.reach([s_ for s_, i in b.succ if i != te])

    def governing(k):
        """conditions that decide whether k runs, loop back edges cut: branch c governs k when k is reachable from exactly one arm of c without passing c again"""
        out = []
        for c in g.nodes:
            if c.kind != "branch" or not c.cond or len(c.succ) != 2:
                continue
            arms = [i for s_, i in c.succ if k.id in g.reach([s_], avoid=lambda x, c=c: x.id == c.id)]
            if len(arms) == 1:
                out.append(c.cond["text"])
        return out
    n = 0
    for k in g.nodes:
        if k.kind != "ret" or re.sub(r"\s+", "", k.ev.get("text", "")) not in ("false", "0"):
            continue
        if k.id in sparse_arm:
            continue
        n += 1
        R.paths += 1
        conds = governing(k)
        reads_slot = any(re.search(r"(?<!\w)%s\[" % re.escape(p_), t) for t in conds for p_ in ptrs)
        iid = "isSingletonNode (full form): `return false` at line %s rests on a slot that was read" % k.line
        if reads_slot:
            R.ok(iid, where(f, k.line))
        else:
            R.fail(iid, where(f, k.line), Finding(R.rule, f["file"], base_name(f["q"]), "return-false@%s" % re.sub(r"\s+", "", ";".join(c for c in conds if not any(v in c for v in sparse_vars)))[:50],
                   "in the full-stored form `not a singleton` is concluded from %s without reading any child slot: a node whose only non-transparent child has a high index is stored full under the FULL_ONLY policy, is a singleton, and is no longer recognised (identity-reduced relations then keep illegal i→{i→d} patterns)" % ([c for c in conds if not any(v in c for v in sparse_vars)] or "nothing"), k.line))
    if n < 1:
        raise AnalysisBroken("codec.singleton-scan: no `return false` in the full-stored branch")
    R.require_floor(1, "negative answers of the full-form singleton test")
    return R


def rule_chunkptr(P):
    """memory.h: a pointer from getChunkAddress is valid only until the next requestChunk of the same manager"""
    R = RuleResult("chunkptr", "in storage/simple.cc and storage/ct_styles.cc a local pointer obtained from getChunkAddress is not used after a call that can reach requestChunk (the array-based memory managers may move their storage)")
    req = {q for q in P.by_q if q.endswith("::requestChunk")}
    if not req:
        raise AnalysisBroken("chunkptr: no requestChunk implementation found")
    # functions from which requestChunk is reachable
    reaches = set(req) | {M + "memory_manager::requestChunk"}
    changed = True
    while changed:
        changed = False
        for f in P.fns.values():
            if f["q"] not in reaches and (P.callees(f) & reaches):
                reaches.add(f["q"])
                changed = True
    nptr = 0
    for f in sorted(P.fns.values(), key=lambda f: (f["file"], f["line"], f["inst"])):
        if f["file"] not in ("storage/simple.cc", "storage/ct_styles.cc") or not f.get("cfg"):
            continue
        g = Graph(f)
        ptrs = [n for n in g.nodes if n.kind == "ldef" and n.ev.get("ptr") and n.ev.get("callq", "").endswith("getChunkAddress")]
        if not ptrs:
            continue
        R.functions.add(f["inst"])
        allocs = [n for n in g.nodes if n.kind == "call" and (n.ev["q"] in reaches or any(o.split("(")[0] in reaches for o in P.overriders().get(n.ev["q"] + n.ev.get("sig", ""), ())))]
        for d in ptrs:
            nptr += 1
            v = d.ev["var"]
            # pointers derived from v (down = chunk + …) go stale with it
            derived = {v}
            for n in g.nodes:
                if n.kind == "ldef" and n.ev.get("ptr") and re.search(r"\b(%s)\b" % "|".join(map(re.escape, derived)), n.ev["rhs"]) and n.id != d.id:
                    derived.add(n.ev["var"])
            pat = re.compile(r"\b(%s)\b" % "|".join(map(re.escape, derived)))
            redef = lambda n, v=v: n.kind == "ldef" and n.ev["var"] == v and n.ev.get("callq", "").endswith("getChunkAddress")
            iid = "%s%s: `%s` (line %s) not used after an allocation" % (base_name(f["q"]).split("::")[-1], f["sig"][:24], v, d.line)
            bad = None
            R.paths += 1
            for a in allocs:
                if not g.path(d, lambda n, a=a: n.id == a.id, avoid=redef):
                    continue
                def uses(n):
                    if n.id == a.id:
                        return False
                    texts = []
                    ev = n.ev or {}
                    for k in ("args",):
                        texts += ev.get(k, [])
                    for k in ("recv", "lhs", "rhs", "text", "index"):
                        if ev.get(k):
                            texts.append(ev[k])
                    if n.kind == "branch" and n.cond:
                        texts.append(n.cond["text"])
                    if n.kind == "ldef" and n.ev["var"] in derived and n.ev.get("callq", "").endswith("getChunkAddress"):
                        return False
                    return any(pat.search(t) for t in texts)
                p = g.path(a, uses, avoid=redef)
                if p:
                    bad = (a, p)
                    break
            if bad:
                R.fail(iid, where(f, bad[1][-1].line), Finding(R.rule, f["file"], base_name(f["q"]), "%s-after-%s" % (v, bad[0].ev["q"].split("::")[-1]),
                       "pointer `%s` from getChunkAddress is used after %s, which can reach requestChunk: with the array-based memory managers the chunk may have moved" % (v, bad[0].ev["q"].split("::")[-1]),
                       bad[1][-1].line, show_path(bad[1])))
            else:
                R.ok(iid, where(f, d.line))
    R.notes.append("%d functions can reach requestChunk; %d chunk pointers followed" % (len(reaches), nptr))
    R.require_floor(20, "chunk pointers in the storage layer")
    return R


LINK_PAIR = {"Next": "Prev", "Prev": "Next", "Up": "Down", "Down": "Up"}
_SRC_LINES = {}


def _src_line(file, line):
    import os
    from frontend import SRC
    if file not in _SRC_LINES:
        try:
            _SRC_LINES[file] = open(os.path.join(SRC, file), errors="replace").read().split("\n")
        except OSError:
            _SRC_LINES[file] = []
    L = _SRC_LINES[file]
    return L[line - 1] if 0 < line <= len(L) else ""


def _link_arg(t):
    t = _nzs(t).replace("this->", "")
    m = re.fullmatch(r"(?:node_address|INT|long|int|size_t)\((.+)\)", t)
    return m.group(1) if m else t


def rule_link_symmetry(P):
    """the grid managers keep their holes in doubly linked chains (Next/Prev) and a doubly linked column of index holes (Up/Down).  A function
    that stores one direction of a link — Next(a) = b — stores the other — Prev(b) = a — as well (guarded by `if (b)` or not); a hole whose back
    link is stale is unlinked later through the wrong neighbour and the chain then leads into a chunk that has been handed out."""
    R = RuleResult("storage.link-symmetry", "in the grid memory managers, a function that stores a link Next(a)=b / Up(a)=b with b not the literal 0 also stores the opposite link Prev(b)=a / Down(b)=a (accessor assignment, set<Link>(a,b), or createIndexHoleUp(a,b) for Up)")
    seen = set()
    nst = 0
    for f in sorted(P.fns.values(), key=lambda f: (f["file"], f["line"], f["inst"])):
        if not f.get("cfg") or not f["file"].startswith("memory_managers/") or (f["file"], f["line"]) in seen:
            continue
        g = Graph(f)
        stores = []
        for k in g.nodes:
            if k.kind != "call" or not k.ev["q"].startswith(M):
                continue
            nm = k.ev["q"].split("::")[-1]
            a = k.ev.get("args", [])
            if nm in ("setNext", "setPrev", "setUp", "setDown") and len(a) == 2:
                stores.append((nm[3:], _link_arg(a[0]), _link_arg(a[1]), k.line))
            elif nm == "createIndexHoleUp" and len(a) == 2:
                stores.append(("Up", _link_arg(a[0]), _link_arg(a[1]), k.line))
            elif nm in LINK_PAIR and len(a) == 1:
                m = re.search(r"\b%s\s*\(\s*%s\s*\)\s*=(?!=)\s*([^;]+);" % (nm, re.escape(a[0].strip().replace("this->", ""))), _src_line(f["file"], k.line))
                if m:
                    stores.append((nm, _link_arg(a[0]), _link_arg(m.group(1)), k.line))
        if not stores:
            continue
        seen.add((f["file"], f["line"]))
        R.functions.add(f["inst"])
        have = {(s[0], s[1], s[2]) for s in stores}
        for acc, a, b, line in sorted(set(stores), key=lambda s: s[3]):
            if b in ("0", "0L", "nullptr"):
                continue
            nst += 1
            R.paths += 1
            iid = "%s: %s(%s)=%s has %s(%s)=%s" % (base_name(f["q"]).replace(M, "")[:50], acc, a, b, LINK_PAIR[acc], b, a)
            if (LINK_PAIR[acc], b, a) in have:
                R.ok(iid, where(f, line))
            else:
                R.fail(iid, where(f, line), Finding(R.rule, f["file"], base_name(f["q"]), "%s(%s)=%s" % (acc, a, b),
                       "the link %s(%s) = %s is stored but the opposite link %s(%s) = %s is not stored anywhere in this function: %s keeps a stale %s link, and unlinking it later rewires the wrong neighbour" % (acc, a, b, LINK_PAIR[acc], b, a, b, LINK_PAIR[acc].lower()), line, inst=f["inst"]))
    if nst < 20:
        raise AnalysisBroken("storage.link-symmetry: expected at least 20 link stores in the grid managers (array_grid.cc, orig_grid.cc), found %d" % nst)
    R.require_floor(20, "link stores")
    return R


RULES = [rule_threshold_first, rule_coalesce, rule_serve, rule_singleton_scan, rule_layout, rule_chunkptr, rule_link_symmetry]
