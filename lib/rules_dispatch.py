"""dispatch — sibling factory agreement (DESIGN §2.9): the traditional, saturation and one-step image
factories must select, per forest kind, the same accumulate operator (directly, or through the
accumulateOp of the policy class they instantiate).  Necessary for "all algorithms return the
identical edge" and for the distance variants using (min, +1) everywhere."""
import re

from cfg import Graph, show_path
from core import Finding, RuleResult
from frontend import AnalysisBroken, where, base_name

M = "MEDDLY::"


def _context(g, n):
    """conditions that govern node n: [(text of the condition or case label, arm is 'true'/'false'/'case')]"""
    out = []
    for b in g.nodes:
        if b.kind != "branch" or len(b.succ) < 2:
            continue
        arms = [(s, i) for s, i in b.succ if n.id in g.reach([s])]
        if g.blocks[b.block].get("term") == "SwitchStmt" and 1 <= len(arms) < len(b.succ):
            # several case labels may lead to the same statements (`case A: case B: …`, or a fall-through): all of them govern n
            out.append((" | ".join(g.blocks[g.nodes[s].block].get("label") or "?" for s, _ in arms), "case"))
            continue
        if len(arms) != 1:
            continue   # reachable from several arms (or none): b does not decide whether n runs
        s, idx = arms[0]
        if g.blocks[b.block].get("term") == "SwitchStmt":
            out.append((g.blocks[g.nodes[s].block].get("label") or "?", "case"))
        elif b.cond:
            out.append((b.cond["text"], "true" if idx == 0 else "false"))
    return out


def _kind(ctx):
    """(labeling, range) of the forest kind a piece of factory code serves, from its governing conditions"""
    lab = rng = None
    for text, arm in ctx:
        t = text.replace("MEDDLY::", "")
        if arm == "true" and "getEdgeLabeling" in t and "==" in t:
            m = re.search(r"edge_labeling::(\w+)", t)
            if m:
                lab = m.group(1)
        if arm == "case":
            m = re.search(r"range_type::(\w+)", t)
            if m:
                rng = m.group(1)
            m = re.search(r"edge_type::(\w+)", t)
            if m and m.group(1) in ("INT", "LONG"):
                rng = "INTEGER"
        if arm == "true" and "getRangeType" in t and "==" in t:
            m = re.search(r"range_type::(\w+)", t)
            if m:
                rng = m.group(1)
    if lab and rng:
        return (lab, rng)
    return None


def _policy_accumulate(P):
    """policy struct (mt_prepost, mt_distance, ev_prepost, mt_vectXmatr) -> builtin its accumulateOp builds"""
    out = {}
    for f in P.fns.values():
        if f["q"].endswith("::accumulateOp") and "forest" in f["sig"] and f.get("cfg"):
            g = Graph(f)
            for n in g.nodes:
                if n.kind == "call" and n.ev["q"].endswith("::build") and n.ev["args"]:
                    out[base_name(f["q"]).rsplit("::", 2)[-2]] = n.ev["args"][0].replace("MEDDLY::", "")
    return out


def rule_dispatch(P):
    R = RuleResult("dispatch.accumulate", "per forest kind, the traditional (frontier / no frontier), saturation and image factories select the same accumulate operator: boolean MT -> UNION, integer MT -> DIST_MIN, EV+ -> MINIMUM")
    pol = _policy_accumulate(P)
    if len(pol) < 3:
        raise AnalysisBroken("dispatch: accumulateOp of the image policies not found (%s)" % pol)
    tables = {}
    for f in sorted(P.fns.values(), key=lambda f: (f["file"], f["line"], f["inst"])):
        bn = base_name(f["q"])
        if not bn.endswith("_factory::build_new") or f["file"] not in ("operations/reach_trad.cc", "operations/satur_sets.cc", "operations/prepost_sets.cc") or not f.get("cfg"):
            continue
        fam = bn.split("::")[-2]
        if fam == "VM_MULTIPLY_factory" or fam == "MV_MULTIPLY_factory":
            continue
        g = Graph(f)
        R.functions.add(f["inst"])
        tab = tables.setdefault(fam, {})
        for n in g.nodes:
            acc = None
            if n.kind == "call" and n.ev["q"].endswith("::build") and n.ev["args"] and n.ev["args"][0].replace("MEDDLY::", "") in ("UNION", "DIST_MIN", "MINIMUM", "MAXIMUM", "PLUS", "INTERSECTION"):
                acc = n.ev["args"][0].replace("MEDDLY::", "")
                # only the operator stored as the accumulator: the one passed c, c, c
                if len(set(a for a in n.ev["args"][1:])) != 1:
                    continue
            elif n.kind == "new" and ("prepost_set_mtrel" in n.ev["type"] or "saturation_set_mtrel" in n.ev["type"]):
                m = re.search(r"(mt_prepost|mt_distance|ev_prepost|mt_vectXmatr)", n.ev["type"])
                if m and m.group(1) in pol:
                    acc = pol[m.group(1)]
            if acc is None:
                continue
            k = _kind(_context(g, n))
            if k is None:
                continue
            tab.setdefault(k, set()).add((acc, n.line, f["file"], f["inst"]))
    if len(tables) < 3:
        raise AnalysisBroken("dispatch: expected the traditional, saturation and image factories, found %s" % sorted(tables))
    kinds = sorted({k for t in tables.values() for k in t})
    for k in kinds:
        chosen = {}
        for fam, t in sorted(tables.items()):
            if k in t:
                chosen[fam] = sorted({a for a, *_ in t[k]})
        vals = {tuple(v) for v in chosen.values()}
        iid = "%s/%s: %s" % (k[0], k[1], ", ".join("%s->%s" % (fam.replace("_factory", ""), "|".join(v)) for fam, v in sorted(chosen.items())))
        R.paths += len(chosen)
        any_rec = next(iter(next(iter(tables.values())).values()))
        if len(vals) == 1 and all(len(v) == 1 for v in chosen.values()):
            R.ok(iid, "src/operations/reach_trad.cc")
        else:
            # blame the minority
            from collections import Counter
            cnt = Counter(tuple(v) for v in chosen.values())
            major = cnt.most_common(1)[0][0]
            for fam, v in sorted(chosen.items()):
                if tuple(v) != major:
                    rec = sorted(tables[fam][k])[0]
                    R.fail(iid, "src/%s:%s" % (rec[2], rec[1]), Finding(R.rule, rec[2], M + fam + "::build_new", "%s/%s" % k,
                           "for %s %s forests this factory accumulates with %s while the other reachability/image factories use %s: the algorithms no longer compute the same fixed point" % (k[0], k[1], "|".join(v), "|".join(major)), rec[1]))
    R.notes.append("policy accumulate operators: %s" % pol)
    R.require_floor(3, "forest kinds with an accumulate operator in ≥1 factory")
    return R


def rule_split_complete(P):
    """the per-level relation split is kept in the (cached) saturation operation: every iteration of fillSplit's level loop must
    (re)define top_exactly[k], otherwise a later call on another relation fires events left over from an earlier one"""
    R = RuleResult("dispatch.split-complete", "saturation_set_mtrel::fillSplit assigns top_exactly[k] on every path through its per-level loop (the split lives in the cached operation object and must be rebuilt completely for each relation)")
    fs = [f for f in P.fns.values() if base_name(f["q"]) == M + "saturation_set_mtrel::fillSplit" and f.get("cfg")]
    if len(fs) < 4:
        raise AnalysisBroken("dispatch.split-complete: expected ≥4 instantiations of saturation_set_mtrel::fillSplit, found %d" % len(fs))
    for f in sorted(fs, key=lambda f: f["inst"]):
        g = Graph(f)
        R.functions.add(f["inst"])
        heads = [n for n in g.nodes if n.kind == "branch" and g.blocks[n.block].get("term") == "ForStmt" and len(n.succ) == 2]
        sets = lambda n: n.kind == "call" and n.ev["q"].endswith("dd_edge::set") and "top_exactly[" in n.ev.get("recv", "")
        outer = [h for h in heads if any(sets(g.nodes[i]) for i in g.reach([s for s, i in h.succ if i == 0]))]
        if not outer:
            raise AnalysisBroken("dispatch.split-complete: no loop of fillSplit assigns top_exactly[k]")
        # the outermost such loop: the one whose body reaches the others
        h = min(outer, key=lambda h: h.line or 0)      # the enclosing loop starts first in the source
        body = [s for s, i in h.succ if i == 0][0]
        R.paths += 1
        p = None if sets(g.nodes[body]) else g.path(body, lambda n: n.id == h.id, avoid=sets)
        iid = "%s: every iteration of the level loop assigns top_exactly[k]" % f["inst"].replace(M, "")[:100]
        if p:
            R.fail(iid, where(f, h.line), Finding(R.rule, f["file"], base_name(f["q"]), "top_exactly[k]",
                   "an iteration of the per-level loop can finish without assigning top_exactly[k]: the entry keeps the part of a previous relation and later saturation calls fire stale events", h.line, show_path(p), inst=f["inst"]))
        else:
            R.ok(iid, where(f, h.line))
    R.require_floor(4, "fillSplit instantiations")
    return R


RULES = [rule_dispatch, rule_split_complete]


def rule_copy_factory(P):
    """COPY_factory::build_new picks the implementation per forest pair; each implementation is sound only for the pairs it was written for"""
    R = RuleResult("dispatch.copy-factory", "COPY_factory::build_new constructs copy_inforest only when source and target are the same forest object, copy_MT only for a multi-terminal source, copy_EV_fast only for EV+/index→EV+ or EV*→EV* of matching range, and copy_EV<EdgeOp_plus|times<T>> only for the source labeling and range its edge operator implements")
    fs = [f for f in P.fns.values() if f["q"] == M + "COPY_factory::build_new" and f.get("cfg")]
    if not fs:
        raise AnalysisBroken("dispatch.copy-factory: COPY_factory::build_new not found")
    f = fs[0]
    g = Graph(f)
    R.functions.add(f["inst"])

    def atoms(pred):
        # a negated test `!X` is the same atom X; true_edge() below picks the edge on which X itself holds
        return [b for b in g.nodes if b.kind == "branch" and b.cond and len(b.succ) == 2 and pred(re.sub(r"\s+", "", b.cond["text"]).lstrip("!"))]

    def true_edge(b):
        return 1 if b.cond.get("neg") else 0

    def needs(n, preds, what):
        """every path entry→n crosses the true edge of at least one branch matching one of preds"""
        bs = [b for p_ in preds for b in atoms(p_)]
        if not bs:
            return "no test of %s found" % what
        te = {b.id: true_edge(b) for b in bs}
        p = g.path(g.entry, lambda k: k.id == n.id, avoid_edge=lambda k, i: k.id in te and i == te[k.id])
        return None if p is None else "reachable without %s: %s" % (what, show_path(p))

    def excludes(n, preds, what):
        """no path entry→n crosses the true edge of a branch matching preds"""
        for p_ in preds:
            for b in atoms(p_):
                t = true_edge(b)
                if n.id in g.reach([s for s, i in b.succ if i == t]) and n.id not in g.reach([s for s, i in b.succ if i != t]):
                    return "constructed under %s" % what
        return None
    case_of = lambda n: next((t for t, arm in _context(g, n) if arm == "case"), None)
    same = lambda t: t in ("arg==res", "res==arg")
    is_mt = lambda t: t == "arg->isMultiTerminal()"
    a_plus = lambda t: t in ("arg->isEVPlus()", "arg->isIndexSet()")
    a_times = lambda t: t == "arg->isEVTimes()"
    r_plus = lambda t: t == "res->isEVPlus()"
    r_times = lambda t: t == "res->isEVTimes()"
    news = [n for n in g.nodes if n.kind == "new" and n.ev.get("rec", "").startswith("copy_")]
    for n in sorted(news, key=lambda n: n.line):
        ty = re.sub(r"\s+", "", n.ev.get("type", "")).replace("classMEDDLY::", "")
        iid = "build_new: %s" % ty
        R.paths += 1
        problems = []
        if ty == "copy_inforest":
            problems.append(needs(n, [same], "`arg == res`"))
        else:
            problems.append(excludes(n, [same], "`arg == res`"))
            if ty == "copy_MT":
                problems.append(needs(n, [is_mt], "`arg->isMultiTerminal()`"))
            else:
                problems.append(excludes(n, [is_mt], "a multi-terminal source"))
                c = case_of(n) or ""
                if ty == "copy_EV_fast":
                    problems.append(needs(n, [r_plus, a_times], "an EV+ target or an EV* source"))
                    problems.append(needs(n, [r_times, a_plus], "an EV* target or an EV+/index source"))
                    problems.append(needs(n, [r_plus, r_times], "an edge-valued target of the same operation"))
                    if "INTEGER" not in c and "REAL" not in c:
                        problems.append("not under a case of the source range type")
                    if "REAL" in c:
                        problems.append(needs(n, [lambda t: t == "res->getRangeType()==range_type::REAL"], "a REAL target for a REAL source"))
                else:
                    m = re.fullmatch(r"copy_EV<EdgeOp_(plus|times)<(\w+)>>", ty)
                    if not m:
                        problems.append("unknown copy class")
                    else:
                        problems.append(needs(n, [a_plus] if m.group(1) == "plus" else [a_times], "an %s source" % ("EV+/index" if m.group(1) == "plus" else "EV*")))
                        problems.append(excludes(n, [a_times] if m.group(1) == "plus" else [a_plus], "the other edge operation"))
                        want = {"long": "INTEGER", "int": "INTEGER", "float": "REAL", "double": "REAL"}.get(m.group(2))
                        if not want or want not in c:
                            problems.append("edge type %s constructed under `%s`" % (m.group(2), c or "no range case"))
        problems = [x for x in problems if x]
        if not problems:
            R.ok(iid, where(f, n.line))
        else:
            R.fail(iid, where(f, n.line), Finding(R.rule, f["file"], f["q"], "new:%s@%s" % (ty, case_of(n) or "-"), "%s is %s" % (ty, "; ".join(problems)), n.line))
    R.require_floor(8, "constructions in COPY_factory::build_new")
    return R


def rule_range_types(P):
    """operation factories instantiate value-typed templates (compare_mt<eq_mt<long>>, arith_compat<…, mt_plus<float>>, copy_EV<EdgeOp_plus<long>>, …)
    under a switch on the forest's range / edge type: the scalar type of the instantiation must be the one the case stands for"""
    R = RuleResult("dispatch.range-types", "in every operation factory, a template instantiated under `case range_type::INTEGER` (edge_type::INT/LONG) uses integer scalar types only, and under REAL (FLOAT/DOUBLE) floating types only")
    ints, reals = {"int", "long"}, {"float", "double"}
    seen = set()
    for f in sorted(P.fns.values(), key=lambda f: (f["file"], f["line"], f["inst"])):
        if not f.get("cfg") or not (f["q"].endswith("::build_new") or f["q"].endswith("::build")) or (f["file"], f["line"]) in seen:
            continue
        seen.add((f["file"], f["line"]))
        g = Graph(f)
        flags = {x.ev["var"] for x in g.nodes if x.kind == "ldef" and x.ev.get("rhs") and
                 all(re.fullmatch(r"\(?\w+->getRangeType\(\)==range_type::REAL\)?", a) for a in re.sub(r"\s+", "", x.ev["rhs"]).strip("()").split("||"))}
        for k in g.nodes:
            if k.kind != "new":
                continue
            ty = k.ev.get("type", "")
            sc = set(re.findall(r"\b(int|long|float|double)\b", ty))
            if not sc:
                continue
            rng = set()
            for t, arm in _context(g, k):
                if arm == "case" or (arm == "true" and "==" in t):
                    rng |= {m.group(2) for m in re.finditer(r"(range_type|edge_type)::(\w+)", t)}
                elif re.fullmatch(r"\w+", t.strip()) and t.strip() in flags:
                    # a local flag `use_reals = a->getRangeType()==REAL || b->getRangeType()==REAL`: true arm = reals, false arm = not reals
                    rng.add("REAL" if arm == "true" else "INTEGER")
            want_int = bool(rng & {"INTEGER", "INT", "LONG"})
            want_real = bool(rng & {"REAL", "FLOAT", "DOUBLE"})
            if not (want_int or want_real) or (want_int and want_real):
                continue
            R.functions.add(f["inst"])
            R.paths += 1
            tyn = re.sub(r"\s+", "", ty).replace("MEDDLY::", "").replace("class", "")
            iid = "%s: %s under %s" % (base_name(f["q"]).replace(M, "")[:50], tyn[:70], "/".join(sorted(rng)))
            if (want_int and sc <= ints) or (want_real and sc <= reals):
                R.ok(iid, where(f, k.line))
            else:
                R.fail(iid, where(f, k.line), Finding(R.rule, f["file"], base_name(f["q"]), "new:%s@%s" % (tyn[:60], "/".join(sorted(rng))),
                       "`%s` is instantiated for a forest whose values are %s: terminals / edge values are then decoded with the wrong scalar type" % (tyn, "integers" if want_int else "reals"), k.line))
    R.require_floor(70, "typed instantiations in operation factories")
    return R


_LAB = {"MULTI_TERMINAL": "MT", "EVPLUS": "PLUS", "INDEX_SET": "PLUS", "EVTIMES": "TIMES"}


def rule_labeling_family(P):
    """operation factories pick a policy family per edge labeling: EdgeOp_plus / evplus_* for EV+ and index sets, EdgeOp_times / evstar_* for EV*,
    EdgeOp_none / mt_* for multi-terminal forests; the family named in the instantiated type must be the labeling the construction is guarded by"""
    R = RuleResult("dispatch.labeling-family", "in every operation factory, an implementation of the EV+ family (EdgeOp_plus, evplus_*) is constructed only under an EV+/index-set test, of the EV* family (EdgeOp_times, evstar_*) only under an EV* test, of the multi-terminal family (EdgeOp_none, mt_*) only under a multi-terminal test")
    seen = set()
    for f in sorted(P.fns.values(), key=lambda f: (f["file"], f["line"], f["inst"])):
        if not f.get("cfg") or not (f["q"].endswith("::build_new") or f["q"].endswith("::build")) or (f["file"], f["line"]) in seen:
            continue
        seen.add((f["file"], f["line"]))
        g = Graph(f)
        for k in g.nodes:
            if k.kind != "new":
                continue
            ty = re.sub(r"\s+", "", k.ev.get("type", ""))
            fam = set()
            if re.search(r"EdgeOp_plus|evplus|EVPLUS|evp_", ty):
                fam.add("PLUS")
            if re.search(r"EdgeOp_times|evstar|evtimes", ty):
                fam.add("TIMES")
            if re.search(r"EdgeOp_none|(?<![a-z])mt_|_mt\b|_mt<", ty):
                fam.add("MT")
            if not fam:
                continue
            lab = set()
            for t, arm in _context(g, k):
                t = re.sub(r"\s+", "", t)
                if arm == "true":
                    if re.search(r"isEVPlus\(\)|isIndexSet\(\)", t):
                        lab.add("PLUS")
                    if "isEVTimes()" in t:
                        lab.add("TIMES")
                    if "isMultiTerminal()" in t:
                        lab.add("MT")
                    m = re.search(r"getEdgeLabeling\(\)==edge_labeling::(\w+)", t)
                    if m:
                        lab.add(_LAB.get(m.group(1), m.group(1)))
                if arm == "case":
                    m = re.search(r"edge_labeling::(\w+)", t)
                    if m:
                        lab.add(_LAB.get(m.group(1), m.group(1)))
            if not lab:
                continue
            R.functions.add(f["inst"])
            R.paths += 1
            tyn = ty.replace("MEDDLY::", "").replace("class", "")
            iid = "%s: %s under %s" % (base_name(f["q"]).replace(M, "")[:50], tyn[:70], "/".join(sorted(lab)))
            if fam & lab:
                R.ok(iid, where(f, k.line))
            else:
                R.fail(iid, where(f, k.line), Finding(R.rule, f["file"], base_name(f["q"]), "new:%s@%s" % (tyn[:60], "/".join(sorted(lab))),
                       "`%s` (family %s) is constructed for forests labelled %s: edge values are combined with the wrong algebra" % (tyn, "/".join(sorted(fam)), "/".join(sorted(lab))), k.line))
    R.require_floor(70, "family-typed instantiations in operation factories")
    return R


_CONV_CALLS = {"copyInto", "getValueFromHandle", "handleForValue", "getEdgeForValue"}
_SCALAR_FAM = {"_Bool": "BOOLEAN", "bool": "BOOLEAN", "int": "INTEGER", "long": "INTEGER", "float": "REAL", "double": "REAL"}
_CASE_FAM = {"BOOLEAN": "BOOLEAN", "INTEGER": "INTEGER", "REAL": "REAL", "INT": "INTEGER", "LONG": "INTEGER", "FLOAT": "REAL", "DOUBLE": "REAL"}


def rule_case_scalar(P):
    """value conversion between forests goes through a scalar local chosen per terminal / range / edge type: under `case BOOLEAN` the value is read and
    written as a bool (non-zero → true happens on the *source* value), under INTEGER as an integer, under REAL as a real.  Reading a real or a
    long into an int first and converting that (seed C10b) loses 0.5 → false and 2^32 → false"""
    R = RuleResult("dispatch.case-scalar", "every copyInto / getValueFromHandle / handleForValue / getEdgeForValue call under a case of a terminal_type / range_type / edge_type switch passes a scalar of that case's family (bool / integer / floating)")
    seen = set()
    for f in sorted(P.fns.values(), key=lambda f: (f["file"], f["line"], f["inst"])):
        if not f.get("cfg") or not f["file"].startswith(("operations/", "dd_edge.cc", "forest.cc", "minterms.cc")):
            continue
        g = None
        for b in f["cfg"]["blocks"]:
            for e in b["ev"]:
                if e["k"] != "call" or not e["q"].startswith(M) or e["q"].split("::")[-1] not in _CONV_CALLS:
                    continue
                if g is None:
                    g = Graph(f)
                node = next(k for k in g.nodes if k.ev is e)
                cases = [t for t, a in _context(g, node) if a == "case"]
                fam = {_CASE_FAM[m.group(2)] for t in cases for m in re.finditer(r"(terminal_type|range_type|edge_type)::(\w+)", t) if m.group(2) in _CASE_FAM}
                sc = {_SCALAR_FAM[w] for w in re.findall(r"\b(_Bool|bool|int|long|float|double)\b", e.get("sig", "").replace("unsigned int", "").replace("unsigned long", ""))}
                if not fam or not sc:
                    continue
                key = (f["file"], e["line"], e["q"], tuple(sorted(fam)))
                if key in seen:
                    continue
                seen.add(key)
                R.functions.add(f["inst"])
                R.paths += 1
                nm = e["q"].split("::")[-1]
                iid = "%s: %s%s under %s" % (base_name(f["q"]).replace(M, "")[:50], nm, e.get("sig", "")[:40], "/".join(sorted(fam)))
                if all(sc <= {fm} for fm in fam):
                    R.ok(iid, where(f, e["line"]))
                else:
                    R.fail(iid, where(f, e["line"]), Finding(R.rule, f["file"], base_name(f["q"]), "%s%s@%s" % (nm, re.sub(r"\s+", "", e.get("sig", ""))[:30], "/".join(sorted(fam))),
                           "under %s the value passes through a %s scalar (%s%s): the conversion the case stands for is applied to an already narrowed value" % ("/".join(sorted(fam)), "/".join(sorted(sc)).lower(), nm, e.get("sig", "")), e["line"], inst=f["inst"]))
    R.require_floor(14, "value conversions under a type case")
    return R


def rule_copy_width(P):
    """an edge value read for conversion into a terminal or another edge value is read at its own width: in copy_EV<EdgeOp<T>>::_compute (and any
    function that reads an edge value with copyInto) a copyInto(S&) with S narrower than T inside T's family silently drops the high bits *before* the
    target's range check (handleForValue → terminal overflow guard) can see them — unless S is the target's own scalar under `case edge_type::S`"""
    R = RuleResult("dispatch.copy-width", "in every instantiation copy_EV<EdgeOp_plus|times<T>>::_compute, copyInto reads the source edge value into a scalar at least as wide as T within T's family, except under the edge_type case that names the narrower target type")
    width = {"int": 1, "long": 2, "float": 1, "double": 2}
    family = {"int": "I", "long": "I", "float": "R", "double": "R"}
    n = 0
    for f in sorted(P.fns.values(), key=lambda f: (f["file"], f["line"], f["inst"])):
        m = re.search(r"copy_EV<MEDDLY::EdgeOp_(plus|times)<(\w+)>>::_compute$", re.sub(r"\s+", "", f["inst"]))
        if not m or not f.get("cfg"):
            continue
        T = m.group(2)
        g = Graph(f)
        R.functions.add(f["inst"])
        for k in g.nodes:
            if k.kind != "call" or not k.ev["q"].endswith("edge_value::copyInto"):
                continue
            sm = re.search(r"\((?:_Bool|bool|int|long|float|double)", k.ev.get("sig", ""))
            S = sm.group(0)[1:] if sm else None
            if S in ("_Bool", "bool") or S is None or family[S] != family.get(T):
                continue      # boolean test and cross-family conversions are the documented scalar conversions
            n += 1
            R.paths += 1
            cases = " ".join(t for t, a in _context(g, k) if a == "case")
            iid = "%s: copyInto(%s&) of a %s edge value under `%s`" % (f["inst"].replace(M, "")[:60], S, T, cases[:60])
            target_is_S = re.search(r"edge_type::%s\b" % S.upper(), cases) is not None
            if width[S] >= width[T] or target_is_S:
                R.ok(iid, where(f, k.line))
            else:
                R.fail(iid, where(f, k.line), Finding(R.rule, f["file"], base_name(f["q"]), "copyInto(%s)@%s" % (S, re.sub(r"\s+", "", cases)[:50]),
                       "a %s edge value is read into `%s` before it is converted under `%s`: the high bits are dropped before the target's range check sees them (2^32+5 is stored as 5 instead of raising VALUE_OVERFLOW)" % (T, S, cases), k.line, inst=f["inst"]))
    if n < 4:
        raise AnalysisBroken("dispatch.copy-width: expected ≥4 same-family copyInto reads in copy_EV<…>::_compute, found %d" % n)
    R.require_floor(4, "same-family edge-value reads in copy_EV")
    return R


def rule_identity_expansion(P):
    """copy_MT rebuilds the skipped identity levels of an identity-reduced source with resF->makeIdentitiesTo().  An identity pattern built in the
    target has the *target's* transparent value off the diagonal; the source has 0 there.  The two agree when the target is multi-terminal or EV*
    (transparent 0) and disagree for an EV+ target (transparent +infinity): the expansion must be guarded by the target's labeling"""
    R = RuleResult("dispatch.identity-expansion", "in copy_MT::_compute every resF->makeIdentitiesTo() is control-dependent on a test of the target forest's labeling that excludes EV+ targets (whose transparent value is +infinity, not the converted zero)")
    fs = [f for f in P.fns.values() if f["q"] == M + "copy_MT::_compute" and f.get("cfg")]
    if not fs:
        raise AnalysisBroken("dispatch.identity-expansion: copy_MT::_compute not found")
    f = fs[0]
    g = Graph(f)
    R.functions.add(f["inst"])
    calls = sorted([k for k in g.nodes if k.kind == "call" and k.ev["q"].endswith("::makeIdentitiesTo") and "resF" in str(k.ev.get("recv"))], key=lambda k: k.line)
    if not calls:
        raise AnalysisBroken("dispatch.identity-expansion: copy_MT::_compute no longer expands identities in the target")
    for n_, k in enumerate(calls):
        R.paths += 1
        ctx = [(re.sub(r"\s+", "", t).replace("this->", ""), arm) for t, arm in _context(g, k)]
        guarded = any((t.lstrip("!") in ("resF->isEVPlus()", "resF->isIndexSet()") and ((arm == "false") != t.startswith("!"))) or
                      (t.lstrip("!") in ("resF->isMultiTerminal()", "resF->isEVTimes()") and ((arm == "true") != t.startswith("!"))) for t, arm in ctx)
        iid = "copy_MT::_compute: identity expansion #%d in the target is guarded by the target's labeling" % (n_ + 1)
        if guarded:
            R.ok(iid, where(f, k.line))
        else:
            R.fail(iid, where(f, k.line), Finding(R.rule, f["file"], f["q"], "makeIdentitiesTo#%d" % (n_ + 1),
                   "the skipped identity levels of the source are rebuilt with resF->makeIdentitiesTo() whatever the target's labeling: in an EV+ target the off-diagonal entries of the pattern are +infinity, in the multi-terminal source they are 0", k.line))
    R.require_floor(2, "identity expansions in copy_MT")
    return R


def rule_special_terminal(P):
    """an EV+ (or index-set) function has one value that is not an edge value: +infinity, the terminal OMEGA_INFINITY.  A copy that turns the edge value
    accumulated at a terminal into a multi-terminal value (av.copyInto(...) → handleForValue) must first ask which terminal it reached; otherwise a
    state the source maps to +infinity receives the partial sum of the edge values on its path — an ordinary integer.  The source says so itself:
    "if (OMEGA_INFINITY == ap) then what???" (triage/t32.cc: non-members of an index set copied into an MT integer forest carry members' indexes)"""
    R = RuleResult("dispatch.special-terminal", "in every copy_EV<EdgeOp_plus<T>>::_compute: the conversion of the accumulated edge value into a terminal of a multi-terminal target (copyInto → handleForValue) is governed by a test of the source terminal against OMEGA_INFINITY")
    n = 0
    for f in sorted(P.fns.values(), key=lambda f: (f["file"], f["line"], f["inst"])):
        if not f.get("cfg") or not re.search(r"copy_EV<.*EdgeOp_plus<.*>::_compute$", f["q"]):
            continue
        g = Graph(f)
        sinks = [k for k in g.nodes if k.kind == "call" and k.ev["q"].endswith("edge_value::copyInto")]
        if not sinks:
            raise AnalysisBroken("dispatch.special-terminal: %s no longer converts an edge value with copyInto" % f["q"])
        n += 1
        R.functions.add(f["inst"])
        R.paths += 1
        tests = [b for b in g.nodes if b.kind == "branch" and b.cond and "OMEGA_INFINITY" in (b.cond.get("text") or "")]
        iid = "%s: +infinity terminal told apart before the edge value becomes a terminal" % base_name(f["q"]).replace(M, "")
        ok = bool(tests) and not any(g.path(g.entry, lambda x, k=k: x.id == k.id, avoid=lambda x: any(x.id == t.id for t in tests)) for k in sinks)
        if ok:
            R.ok(iid, where(f, sinks[0].line))
        else:
            R.fail(iid, where(f, sinks[0].line), Finding(R.rule, f["file"], base_name(f["q"]), "infinity-terminal",
                   "the accumulated edge value is converted into a multi-terminal value without asking whether the source terminal is OMEGA_INFINITY: states the source maps to +infinity get the partial sum of their path as an ordinary value", sinks[0].line, inst=None))
    if n < 1:
        raise AnalysisBroken("dispatch.special-terminal: no copy_EV<EdgeOp_plus<…>>::_compute instantiation found")
    R.require_floor(1, "EV+ push-down copies")
    return R
