"""Regenerates MANIFEST.json from lib/properties.py so the two never drift: python3 lib/manifest_gen.py"""
import json
import os
import sys

HERE = os.path.dirname(os.path.abspath(__file__))
sys.path.insert(0, HERE)
import properties  # noqa: E402

VERIF = os.path.dirname(HERE)


def main():
    checks = []
    for pid in sorted(properties.PROPS):
        spec = properties.PROPS[pid]
        checks.append({
            "property_id": pid,
            "engine": spec.get("engine", "msa"),
            "quick_cmd": "./check %s --tier quick" % pid,
            "thorough_cmd": "./check %s --tier thorough" % pid,
            "evidence_file": "evidence/%s.json" % pid,
            "replay_cmd_template": "./check --replay {path}",
            "technique": spec["technique"],
            "level_claimed": {"category": "other", "text": spec["level_text"], "design_ref": spec["design_ref"]},
            "level_note": spec["level_note"],
        })
    na = [{"property_id": p, "reason": r} for p, r in sorted(properties.NOT_APPLICABLE.items())]
    m = {
        "version": 1,
        "setup_cmd": "make -C tool -j16",
        "hooks": {"guard": "MEDDLY_VERIF", "enable": "none: the checks read /repo's source as the normal build compiles it; no hook exists in /repo",
                  "baseline_off_cmd": "make -C /repo -k check", "source_commits": [], "add_only": True},
        "engines": [
            {"name": "msa", "path": "tool/msa", "serves_properties": sorted(properties.PROPS),
             "kind_free_text": "custom libTooling (clang 14) analyser: resolved call graph, per-function CFG facts, ownership/forest typing dataflow; rules in lib/*.py evaluate must-pass-through, dominance, who-may-call and sibling-agreement over those facts"},
        ],
        "checks": checks,
        "not_applicable": na,
        "notes": "Technique family: static analysis only. exit 2 from a check = analysis broken (no verdict). Known findings: known_findings.txt. See DESIGN.md.",
    }
    with open(os.path.join(VERIF, "MANIFEST.json"), "w") as f:
        json.dump(m, f, indent=1)
        f.write("\n")


if __name__ == "__main__":
    main()
