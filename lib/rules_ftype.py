"""ftype — forest-indexed handle typing (DESIGN §2.2), decided by `msa --engine=ftype`.

ftype.mix   a handle that belongs to forest S1 is used where a handle of S2 is required (S1 ≢ S2)
ftype.entry the same report at a public entry point whose edge arguments carry an *unknown* forest:
            the edge's node reaches a typed position without a dominating isAttachedTo / getForest()== / sameForest check
The armed scope is the new-interface operations and the API layer (same files as the own engine);
legacy compute_rec-style operations are analysed in the thorough tier and listed as advisory notes."""
from core import Finding, RuleResult
from frontend import AnalysisBroken, base_name
from rules_own import OWN_SCOPE_FILES, OWN_SCOPE_UNITS

M = "MEDDLY::"
# legacy-interface files in which the ftype engine (but not the own engine, which knows only the new compute-table idioms) is armed
FTYPE_EXTRA_FILES = {"operations/sat_pregen.cc", "sat_relations.cc"}
FTYPE_UNITS = list(OWN_SCOPE_UNITS) + [u for u in ("operations/sat_pregen.cc", "sat_relations.cc") if u not in OWN_SCOPE_UNITS]


def ftype_results(ctx):
    def run():
        units = None if ctx.tier == "thorough" else FTYPE_UNITS
        raw = ctx.fe.run_engine("ftype", units)
        seen = {}
        for u in sorted(raw):
            for f in raw[u]["functions"]:
                seen.setdefault((f["inst"], f["sig"], f["file"], f["line"]), f)
        return list(seen.values()), len(raw)
    return ctx.memo("engine.ftype", run)


def _is_entry(d):
    # the offending handle comes straight from an edge argument (edge.X) or flows into one
    return "edge." in d["msg"]


def _rule(ctx, name, desc, file_pred, floor, want_entry=None):
    R = RuleResult(name, desc)
    fns, nunits = ftype_results(ctx)
    adv = 0
    for f in sorted(fns, key=lambda f: (f["file"], f["line"], f["inst"])):
        armed = f["file"] in OWN_SCOPE_FILES or f["file"] in FTYPE_EXTRA_FILES
        if f.get("gave_up"):
            if armed and file_pred(f["file"]):
                raise AnalysisBroken("%s: state explosion in %s" % (name, f["inst"]))
            continue
        if not armed:
            adv += len(f["diags"])
            continue
        if not file_pred(f["file"]):
            continue
        ds = [d for d in f["diags"] if want_entry is None or _is_entry(d) == want_entry]
        R.functions.add(f["inst"])
        R.paths += f["states"]
        fn = base_name(f["q"]) + (f["sig"] if f["q"].split("::")[-1] in ("compute", "computeTemp") and "dd_edge" in f["sig"] else "")
        if not ds:
            R.ok("%s%s: %d forest/handle pairing(s) checked on all paths" % (f["inst"].replace(M, ""), f["sig"][:40], f["checks"]), "src/%s:%d" % (f["file"], f["line"]), checks=f["checks"])
            continue
        by = {}
        for d in ds:
            by.setdefault(d["sink"], []).append(d)
        for sink, dd in sorted(by.items()):
            lines = sorted({d["line"] for d in dd})
            rule = "ftype.entry" if _is_entry(dd[0]) else "ftype.mix"
            R.fail("%s%s: %s" % (f["inst"].replace(M, ""), f["sig"][:40], sink), "src/%s:%d" % (f["file"], lines[0]),
                   Finding(rule, f["file"], fn, sink, dd[0]["msg"], lines[0], inst=f["inst"]))
    if adv:
        R.notes.append("advisory (not armed): %d forest-mixing diagnostics in legacy operation files outside the armed scope" % adv)
    R.notes.append("%d units analysed by the ftype engine" % nunits)
    R.require_floor(floor, "functions with typed handles")
    return R


SET_ALGEBRA = {"operations/union.cc", "operations/intersection.cc", "operations/difference.cc", "operations/complement.cc", "operations/cross.cc", "operations/copy.cc"}
ARITH = {f for f in OWN_SCOPE_FILES if f.startswith("operations/arith_")} | {"operations/compare.cc", "operations/dist_inc.cc", "operations/user_unary.cc", "operations/maxmin_range.cc"}
IMAGE = {"operations/prepost_sets.cc", "operations/prepost_common.h", "operations/reach_trad.cc", "operations/satur_sets.cc", "rel_node.h", "forest.cc"}
COPY = {"operations/copy.cc"}
SATUR_EVENTS = {"operations/sat_pregen.cc", "sat_relations.cc"}
ENTRY = {"oper_binary.cc", "oper_unary.cc", "oper_binary.h", "oper_unary.h", "forest.cc", "forest.h", "minterms.cc", "minterms.h", "io_mdds.cc", "dd_edge.cc", "dd_edge.h"}


def rule_mix_sets(ctx):
    return _rule(ctx, "ftype.mix[set-algebra]", "union/intersection/difference/complement/cross/copy use every handle only with its own forest; what is returned as result was produced in the result forest", lambda f: f in SET_ALGEBRA, 25, want_entry=False)


def rule_mix_arith(ctx):
    return _rule(ctx, "ftype.mix[arith]", "arithmetic/comparison/unary-map/range operations (every template instantiation) use every handle only with its own forest", lambda f: f in ARITH, 150, want_entry=False)


def rule_mix_image(ctx):
    return _rule(ctx, "ftype.mix[image]", "pre/post image, vector-matrix, traditional and saturation reachability keep set forest, relation forest and result forest apart", lambda f: f in IMAGE, 30, want_entry=False)


def rule_mix_copy(ctx):
    return _rule(ctx, "ftype.mix[copy]", "copy operations read the source forest and build in the target forest only", lambda f: f in COPY, 8, want_entry=False)


def rule_mix_satur_events(ctx):
    return _rule(ctx, "ftype.mix[satur-events]", "saturation over a partitioned relation (by events / by levels) and the relation splitter keep the state-set forest and the relation forest apart: every handle is used only with its own forest", lambda f: f in SATUR_EVENTS, 12, want_entry=False)


def rule_ct_slots(ctx):
    """the part of ftype that concerns the compute table: a handle put into a NODE slot of a key / result belongs to the forest the
    constructor declared for that slot (cache counts and stale tests are taken in the declared forest), and a hit is linked in the result forest"""
    R = RuleResult("ftype.ct-slots", "every handle stored in a NODE slot of a compute-table key or result belongs to the forest the entry type declares for that slot, and what a hit returns is used with the declared result forest")
    fns, nunits = ftype_results(ctx)
    n = 0
    for f in sorted(fns, key=lambda f: (f["file"], f["line"], f["inst"])):
        if f["file"] not in OWN_SCOPE_FILES or f.get("gave_up"):
            continue
        ds = [d for d in f["diags"] if "NODE slot" in d["sink"] or "res[" in d["sink"] or "getN()" in d["msg"]]
        uses_ct = f["checks"] > 0 and any(k in f["q"] for k in ("_compute", "compute", "saturate", "recFire", "fillSplit"))
        if not ds and not uses_ct:
            continue
        R.functions.add(f["inst"])
        R.paths += f["states"]
        if not ds:
            R.ok("%s%s" % (f["inst"].replace(M, ""), f["sig"][:30]), "src/%s:%d" % (f["file"], f["line"]))
            continue
        for d in ds:
            R.fail("%s: %s" % (f["inst"].replace(M, ""), d["sink"]), "src/%s:%d" % (f["file"], d["line"]),
                   Finding("ftype.ct-slots", f["file"], base_name(f["q"]), d["sink"], d["msg"] + " — cache counts and dead/stale tests for that slot are then taken in the wrong forest", d["line"], inst=f["inst"]))
    R.require_floor(150, "compute functions with typed compute-table slots")
    return R


def rule_entry(ctx):
    return _rule(ctx, "ftype.entry", "public entry points validate the forests of their edge arguments before the edges' nodes reach forest-typed positions", lambda f: f in ENTRY, 20, want_entry=None)
