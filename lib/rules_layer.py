"""layer — who may call / who may write (DESIGN §2.5).  Whole-program call graph over resolved
callees (virtual calls expanded to every overrider).  Each table line was confirmed by reading the
callee and every listed caller; a caller outside the table is a new writer of canonical state."""
from cfg import Graph, qmatch, show_path
from core import Finding, RuleResult
from frontend import AnalysisBroken, where, base_name

M = "MEDDLY::"

# (properties served, callee, allowed callers (template arguments stripped), why nobody else may call it)
CALLER_TABLE = [
    ("C01 C02 C04 C12", M + "node_storage::makeNode", {M + "forest::createReducedNode", M + "forest::modifyReducedNodeInPlace"},
     "packed nodes are written only after reduction and the unique-table lookup (creation) or by in-place rewrite during reordering"),
    ("C01 C02", M + "unique_table::add", {M + "forest::createReducedNode", M + "forest::modifyReducedNodeInPlace", M + "forest::swapNodes"},
     "a node becomes visible in the unique table only after find() failed for its reduced content"),
    ("C01 C02", M + "unique_table::remove", {M + "forest::deleteNode", M + "forest::modifyReducedNodeInPlace", M + "forest::swapNodes"},
     "a node leaves the unique table only when it dies or is rewritten under reordering"),
    ("C01", M + "unique_table::find", {M + "forest::createReducedNode"}, "duplicate lookup belongs to node creation"),
    ("C02 C06", M + "node_storage::unlinkDownAndRecycle", {M + "forest::deleteNode", M + "forest::modifyReducedNodeInPlace"},
     "children are released exactly when the node's storage is given up"),
    ("C02 C04 C13", M + "forest::modifyReducedNodeInPlace", {M + "mtmdd_forest::swapAdjacentVariables", M + "evmdd_pluslong::swapAdjacentVariables"},
     "in-place rewrite of a live node is legal only inside an adjacent-variable swap"),
    ("C10 C04 C05", M + "forest::getTransparentEdge", {M + "simple_separated::fillUnpacked", M + "simple_separated::makeFullNode", M + "unpacked_node::_clear", M + "user_unary_op::user_unary_op"},
     "the transparent edge is a storage / reduction notion (what an absent child means); an operation never substitutes the target's transparent edge for a computed or converted value "
     "(user_unary reads the *argument's* transparent edge once, to evaluate F(0))"),
    ("C10 C04 C05", M + "forest::getTransparentNode", {M + "forest::createReducedNode", M + "forest::validateDownPointers", M + "mtmxd_forest::swapAdjacentVariablesOf", M + "simple_separated::areDuplicates",
                                                M + "simple_separated::fillUnpacked", M + "simple_separated::getDownPtr", M + "simple_separated::hashNode", M + "simple_separated::isSingletonNode",
                                                M + "simple_separated::makeFullNode", M + "simple_separated::makeNode", M + "simple_separated::makeSparseNode", M + "unpacked_node::_clear",
                                                M + "unpacked_node::computeHash", M + "unpacked_node::initFrom"},
     "same: only node creation, storage and the unpacked-node code reason about transparent children"),
    ("C02 C04 C13", M + "forest::swapNodes", {M + "mtmxd_forest::swapAdjacentVariablesByVarSwap"}, "handle exchange is a reordering primitive"),
    ("C02 C13", M + "forest::setNodeLevel", {M + "mtmdd_forest::swapAdjacentVariables", M + "evmdd_pluslong::swapAdjacentVariables", M + "mtmxd_forest::swapAdjacentVariablesByVarSwap"},
     "relabelling a live node's level is a reordering primitive"),
    ("C02 C13", M + "node_headers::setNodeLevel", {M + "forest::createReducedNode", M + "forest::createImplicitNode", M + "forest::modifyReducedNodeInPlace", M + "forest::setNodeLevel"},
     "levels are set at creation or by the reordering primitives"),
    ("C02 C12", M + "node_headers::setNodeAddress", {M + "forest::createReducedNode", M + "forest::createImplicitNode", M + "forest::modifyReducedNodeInPlace", M + "forest::setNodeAddress"},
     "a handle's storage address changes only at creation/rewrite (or compaction through forest::setNodeAddress)"),
    ("C01", M + "node_storage::setNextOf", {M + "forest::setNext"}, "the unique-table chain link stored in the node"),
    ("C01", M + "forest::setNext", {M + "unique_table::subtable::add", M + "unique_table::subtable::remove", M + "unique_table::subtable::find",
                            M + "unique_table::subtable::buildFromList", M + "unique_table::subtable::convertToList"},
     "only the unique table threads its chains"),
    ("C06", M + "node_headers::getFreeNodeHandle", {M + "forest::createReducedNode", M + "forest::createImplicitNode"}, "handles are allocated by node creation only"),
    ("C06 C07", M + "node_headers::recycleNodeHandle", {M + "node_headers::lastUnlink", M + "node_headers::lastUncache"},
     "a handle is reused only after both counts dropped to zero"),
    ("C06 C07", M + "forest::deleteNode", {M + "node_headers::lastUnlink", M + "node_headers::lastUncache", M + "node_headers::expandHandleList"},
     "nodes die at the last unlink / last uncache, or in the mark-sweep scan"),
    ("C06 C07", M + "node_headers::lastUnlink", {M + "node_headers::unlinkNode"}, "reached only when the incoming count hits zero"),
    ("C06 C07", M + "node_headers::lastUncache", {M + "node_headers::uncacheNode"}, "reached only when the cache count hits zero"),
    ("C06", M + "node_headers::deactivate", {M + "forest::deleteNode"}, "node becomes a zombie/dead only through deleteNode"),
    ("C02", M + "statset::incActive", {M + "forest::createReducedNode", M + "forest::createImplicitNode"}, "node count = live nodes"),
    ("C02", M + "statset::decActive", {M + "forest::deleteNode"}, "node count = live nodes"),
    ("C07", M + "node_headers::cacheNode", {M + "forest::cacheNode"}, "cache counts change only through the forest wrappers used by the compute tables"),
    ("C07", M + "node_headers::uncacheNode", {M + "forest::uncacheNode"}, "cache counts change only through the forest wrappers used by the compute tables"),
    ("C17", M + "forest::registerForest", {M + "forest::forest"}, "a forest id is assigned once, at construction"),
    ("C17", M + "forest::unregisterForest", {M + "forest::~forest"}, "a forest id dies with the forest"),
    ("C17", M + "forest::unregisterDDEdges", {M + "forest::~forest", M + "forest::markForDeletion"}, "edges are detached only when the forest dies"),
]

# positive control: the rule machinery must be able to see a forbidden caller — operations DO call createReducedNode
POSITIVE_CONTROL = (M + "forest::createReducedNode", {M + "forest::createReducedNode"})


def _callers(P, callee):
    """functions calling `callee` or any overrider of it"""
    names = {callee}
    for k, ovs in P.overriders().items():
        if k.split("(")[0] == callee:
            names |= {o.split("(")[0] for o in ovs}
    out = {}
    for nm in names:
        for f in P.callers_of(nm):
            out[(f["inst"], f["file"], f["line"])] = f
    return list(out.values()), names


def rule_callers(P, prop=None):
    R = RuleResult("layer.callers", "allowed-caller tables for the primitives that write packed nodes, the unique table, node headers, counts and registries")
    for props, callee, allowed, why in CALLER_TABLE:
        if prop is not None and prop not in props.split():
            continue
        if callee not in P.by_q and not any(k.split("(")[0] == callee for k in P.overriders()):
            # a pure virtual has no body: look for its declaration through overriders or callers
            if not P.callers_of(callee):
                raise AnalysisBroken("layer.callers: anchor %s no longer exists (no definition, no caller)" % callee)
        callers, names = _callers(P, callee)
        if not callers:
            raise AnalysisBroken("layer.callers: %s has no caller at all; table line is stale" % callee)
        for f in sorted(callers, key=lambda f: (f["file"], f["line"], f["inst"])):
            R.functions.add(f["inst"])
            bn = base_name(f["q"])
            lines = [c["line"] for c in f["calls"] if c["q"] in names]
            iid = "%s <- %s" % (callee.replace(M, ""), f["inst"].replace(M, ""))
            if bn in allowed or bn in names:
                R.ok(iid, where(f, lines[0] if lines else None))
            else:
                R.fail(iid, where(f, lines[0] if lines else None),
                       Finding(R.rule, f["file"], bn, callee, "calls %s but is not one of its allowed callers {%s}: %s" % (
                           callee, ", ".join(sorted(a.replace(M, "") for a in allowed)), why), lines[0] if lines else f["line"], inst=f["inst"]))
    # positive control
    callers, _ = _callers(P, POSITIVE_CONTROL[0])
    outside = [f for f in callers if base_name(f["q"]) not in POSITIVE_CONTROL[1]]
    if len(outside) < 50:
        raise AnalysisBroken("layer.callers positive control: expected ≥50 callers of createReducedNode outside forest.cc, saw %d — call graph is incomplete" % len(outside))
    R.notes.append("positive control: %d functions outside the table call forest::createReducedNode and would be reported by a table that forbade them" % len(outside))
    # every table line has at least one caller (checked above); the floor is the number of lines, so a caller that
    # legitimately disappears is not "analysis broken" while a vanished table still is
    nlines = sum(1 for props, *_ in CALLER_TABLE if prop is None or prop in props.split())
    R.require_floor(nlines, "caller edges into the protected primitives")
    return R


def rule_active_count(P):
    """node count = live nodes: every handle allocation is followed by incActive on all normal paths; deleteNode always decrements"""
    R = RuleResult("layer.active-count", "getFreeNodeHandle is followed by stats.incActive on every normal path; deleteNode reaches decActive on every normal path")
    for q in (M + "forest::createReducedNode", M + "forest::createImplicitNode"):
        for f in P.find(q):
            g = Graph(f)
            allocs = g.calls("node_headers::getFreeNodeHandle")
            if not allocs:
                continue
            R.functions.add(f["inst"])
            for a in allocs:
                R.paths += 1
                p = g.path(a, lambda n: n.id == g.exit, avoid=lambda n: n.kind == "call" and qmatch(n.ev["q"], "statset::incActive"))
                iid = "%s: incActive after getFreeNodeHandle@%s" % (f["q"].replace(M, ""), f["sig"][:40])
                if p:
                    R.fail(iid, where(f, a.line), Finding(R.rule, f["file"], f["q"], "statset::incActive", "a node handle is allocated but the active-node count is not incremented on some path", a.line, show_path(p)))
                else:
                    R.ok(iid, where(f, a.line))
    f = P.find(M + "forest::deleteNode")[0]
    g = Graph(f)
    R.functions.add(f["inst"])
    R.paths += 1
    p = g.path(g.entry, lambda n: n.id == g.exit, avoid=lambda n: n.kind == "call" and qmatch(n.ev["q"], "statset::decActive"))
    if p:
        R.fail("deleteNode: decActive", where(f), Finding(R.rule, f["file"], f["q"], "statset::decActive", "deleteNode can return without decrementing the active-node count", f["line"], show_path(p)))
    else:
        R.ok("deleteNode: decActive", where(f))
    R.require_floor(3, "allocation/deallocation sites")
    return R


REWRITE_PRIMS = {M + "forest::modifyReducedNodeInPlace", M + "forest::swapNodes", M + "forest::setNodeLevel"}


def rewriters(P):
    W = set(REWRITE_PRIMS)
    changed = True
    while changed:
        changed = False
        for f in P.fns.values():
            if f["q"] not in W and (P.callees(f) & W):
                W.add(f["q"])
                changed = True
    return W


def rule_cache_before_rewrite(P):
    """Every call-graph root from which an in-place rewrite of live nodes is reachable clears the
    compute tables before its first call towards the rewrite (cached results name nodes by handle
    and level; reordering changes what a handle means)."""
    R = RuleResult("layer.cache-before-rewrite", "removeAllComputeTableEntries dominates the first call that can reach modifyReducedNodeInPlace/swapNodes/setNodeLevel, in every root of that call cone")
    W = rewriters(P)
    roots = []
    for q in sorted(W - REWRITE_PRIMS):
        callers = {c["q"] for c in P.callers_of(q)} - {q}
        fs = P.by_q.get(q, [])
        for f in fs:
            R.functions.add(f["inst"])
        if callers:
            R.notes.append("internal to the reordering cone (every caller is itself in the cone): %s" % q.replace(M, ""))
            continue
        for f in fs:
            roots.append(f)
            g = Graph(f)
            R.paths += 1
            sink = lambda n: n.kind == "call" and (n.ev["q"] in W or any(o.split("(")[0] in W for o in P.overriders().get(n.ev["q"] + n.ev.get("sig", ""), ())))
            p = g.path(g.entry, sink, avoid=lambda n: n.kind == "call" and qmatch(n.ev["q"], "forest::removeAllComputeTableEntries"))
            iid = "%s clears the compute tables before reordering" % q.replace(M, "")
            if p:
                R.fail(iid, where(f, p[-1].line), Finding(R.rule, f["file"], q, "forest::removeAllComputeTableEntries",
                       "reaches %s without first removing all compute-table entries" % p[-1].ev["q"], p[-1].line, show_path(p)))
            else:
                R.ok(iid, where(f))
    R.notes.append("reordering cone: %d functions, %d roots" % (len(W), len(roots)))
    R.require_floor(5, "reordering entry points")
    return R


def rule_exchange_once(P):
    """levels and the variable order change together: a swap routine that relabels nodes calls variable_order::exchange exactly once"""
    R = RuleResult("layer.exchange-once", "every function that calls forest::setNodeLevel calls variable_order::exchange exactly once on every normal path")
    for f in sorted(P.callers_of(M + "forest::setNodeLevel"), key=lambda f: f["inst"]):
        g = Graph(f)
        R.functions.add(f["inst"])
        ex = g.calls("variable_order::exchange")
        iid = "%s exchanges the variable order exactly once" % f["q"].replace(M, "")
        R.paths += 2
        p1 = g.path(g.entry, lambda n: n.id == g.exit, avoid=lambda n: n in ex)
        p2 = None
        for e in ex:
            p2 = p2 or g.path(e, lambda n: n in ex)
        if not ex or p1:
            R.fail(iid, where(f), Finding(R.rule, f["file"], f["q"], "variable_order::exchange", "node levels are relabelled but the variable order is not exchanged on some normal path", f["line"], show_path(p1) if p1 else None))
        elif p2 and len(p2) > 1:
            R.fail(iid, where(f), Finding(R.rule, f["file"], f["q"], "variable_order::exchange", "the variable order can be exchanged twice in one swap", f["line"], show_path(p2)))
        else:
            R.ok(iid, where(f, ex[0].line))
    R.require_floor(3, "swap routines that relabel levels")
    return R


EDGE_FIELDS = {M + "dd_edge::node", M + "dd_edge::parentFID", M + "dd_edge::prev", M + "dd_edge::next"}
EDGE_FIELD_WRITERS = {M + "forest::registerEdge", M + "forest::unregisterEdge", M + "forest::unregisterDDEdges"}


def rule_edge_fields(P):
    R = RuleResult("layer.edge-fields", "dd_edge::node/parentFID/prev/next are written only by dd_edge methods and forest::{registerEdge,unregisterEdge,unregisterDDEdges}")
    for f in P.fns.values():
        if not f.get("cfg"):
            continue
        for b in f["cfg"]["blocks"]:
            for ev in b["ev"]:
                if ev["k"] == "store" and ev["member"] in EDGE_FIELDS:
                    R.functions.add(f["inst"])
                    iid = "%s writes %s" % (f["inst"].replace(M, ""), ev["member"].replace(M, ""))
                    if f.get("class") == M + "dd_edge" or f["q"] in EDGE_FIELD_WRITERS:
                        R.ok(iid, where(f, ev["line"]))
                    else:
                        R.fail(iid, where(f, ev["line"]), Finding(R.rule, f["file"], base_name(f["q"]), ev["member"],
                               "the root-edge registry/refcount field is written outside dd_edge and the forest's edge registry", ev["line"]))
    R.require_floor(20, "stores into dd_edge link fields")
    return R


def rule_edge_set_balance(P):
    """dd_edge::set(n) *takes over* a reference the caller already holds on n (the operations call res.set(v, p) with the p they were given) and gives
    up the edge's reference on its old node: with a live forest every path through it releases exactly one reference.  set_and_link(n) is the
    non-consuming twin: it may return at once when the edge already holds n, otherwise it links n and unlinks the old node.  Seed C06d copied the
    twin's shortcut into set(): the reference handed over is then never released — a silent leak in every no-change round of a fixed-point loop"""
    import re as _re
    R = RuleResult("layer.edge-set-balance", "dd_edge::set(node_handle): every path to the exit passes forest::unlinkNode unless it took the forest-is-gone arm; dd_edge::set_and_link: every path passes linkNode and unlinkNode together or neither")
    nz = lambda t: _re.sub(r"\s+|this->", "", t or "")
    fs = [f for f in P.find(M + "dd_edge::set") if f.get("cfg") and len(f.get("params", [])) == 1]
    if not fs:
        raise AnalysisBroken("layer.edge-set-balance: dd_edge::set(node_handle) not found")
    for f in fs[:1]:
        g = Graph(f)
        R.functions.add(f["inst"])
        R.paths += 1
        gone = lambda b, arm: b.kind == "branch" and b.cond and len(b.succ) == 2 and b.cond.get("op") == "truth" and _re.fullmatch(r"!?\w+", nz(b.cond["text"])) and any(k.kind == "ldef" and k.ev["var"] == nz(b.cond["text"]).lstrip("!") and "getForestWithID" in (k.ev.get("rhs") or "") for k in g.nodes) and arm == (0 if b.cond.get("neg") else 1)
        pth = g.path(g.entry, lambda x: x.id == g.exit, avoid=lambda x: x.kind == "call" and x.ev["q"].endswith("forest::unlinkNode"), avoid_edge=gone)
        iid = "dd_edge::set(n) releases one reference on every path with a live forest"
        if pth:
            R.fail(iid, where(f), Finding(R.rule, f["file"], f["q"], "set-without-release", "dd_edge::set(n) consumes a reference on n; a path returns with the forest alive and without unlinkNode: the reference handed over (or the old one) is never released", f["line"], show_path(pth)))
        else:
            R.ok(iid, where(f))
    for f in [f for f in P.find(M + "dd_edge::set_and_link") if f.get("cfg")][:1]:
        g = Graph(f)
        R.functions.add(f["inst"])
        is_l = lambda x: x.kind == "call" and x.ev["q"].endswith("forest::linkNode")
        is_u = lambda x: x.kind == "call" and x.ev["q"].endswith("forest::unlinkNode")
        for what, a, b in (("links without unlinking", is_l, is_u), ("unlinks without linking", is_u, is_l)):
            R.paths += 1
            iid = "dd_edge::set_and_link never %s" % what
            bad = None
            for k in g.nodes:
                if a(k):
                    before = g.path(g.entry, lambda x, k=k: x.id == k.id, avoid=b)
                    after = g.path(k.id, lambda x: x.id == g.exit, avoid=b)
                    if before and after:
                        bad = before + after[1:]
            if bad:
                R.fail(iid, where(f), Finding(R.rule, f["file"], f["q"], "unbalanced:" + what.split()[0], "a path through dd_edge::set_and_link %s: the edge's count on the old or the new node is off by one" % what, f["line"], show_path(bad)))
            else:
                R.ok(iid, where(f))
    R.require_floor(3, "reference obligations of the dd_edge root setters")
    return R


RULES = [rule_callers, rule_active_count, rule_cache_before_rewrite, rule_exchange_once, rule_edge_fields, rule_edge_set_balance]


def rule_result_by_value(P):
    """the apply() wrappers (binary_operation / unary_operation ::compute, ::computeTemp) call the operation's recursion with an *output* edge value.
    That output must be a local of the wrapper, installed into the caller's result edge only after the recursion has returned: the result edge may be
    the same object as an operand (c = a - c, x = x + y), whose edge value the recursion still has to read after it started writing its output — and
    when the recursion throws, the caller's result edge must be left as it was"""
    import re
    R = RuleResult("layer.result-by-value", "no call hands `p.setEdgeValue()` (a reference into the dd_edge parameter p) to a callee while another dd_edge parameter of the same function is also passed: the wrappers compute into a local edge value and install it with p.set(value, node) afterwards")
    n_wr = 0
    for f in sorted(P.fns.values(), key=lambda f: (f["file"], f["line"], f["inst"])):
        if not f.get("cfg"):
            continue
        edges = [p_["name"] for p_ in f.get("params", []) if (p_.get("rec") or "").endswith("dd_edge")]
        if len(edges) < 2:
            continue
        for b in f["cfg"]["blocks"]:
            for e in b["ev"]:
                if e["k"] != "call":
                    continue
                outs = [m.group(1) for a in (e.get("args") or []) for m in [re.fullmatch(r"(\w+)\.setEdgeValue\(\)", re.sub(r"\s+", "", a))] if m]
                outs = [o for o in outs if o in edges]
                ins = {m.group(1) for a in (e.get("args") or []) for m in re.finditer(r"(\w+)\.(?:getEdgeValue|getNode)\(\)", a)} & set(edges)
                if outs and (ins - set(outs)):
                    R.paths += 1
                    R.functions.add(f["inst"])
                    iid = "%s%s: %s.setEdgeValue() handed to %s together with %s" % (base_name(f["q"]).replace(M, ""), f["sig"][:30], outs[0], e["q"].split("::")[-1], sorted(ins - set(outs)))
                    R.fail(iid, where(f, e["line"]), Finding(R.rule, f["file"], base_name(f["q"]) + f["sig"], "out:%s.setEdgeValue()@%d" % (outs[0], len([x for x in R.findings if x.fn == base_name(f["q"]) + f["sig"]])),
                           "the recursion writes its output straight into the edge value stored in `%s`; when the caller passes the same edge as an operand (c = a - c) the operand's edge value is overwritten before it is read, and when the recursion throws the caller's edge keeps a half-written value" % outs[0], e["line"]))
        # positive form: computes into a local, installs afterwards
        g = None
        for b in f["cfg"]["blocks"]:
            for e in b["ev"]:
                if e["k"] == "call" and e["q"].endswith("dd_edge::set") and len(e.get("args") or []) == 2 and (e.get("recv") in edges) and f["file"] in ("oper_binary.cc", "oper_unary.cc"):
                    n_wr += 1
                    R.paths += 1
                    R.functions.add(f["inst"])
                    R.ok("%s%s: result installed by %s.set(%s) after the recursion" % (base_name(f["q"]).replace(M, ""), f["sig"][:30], e["recv"], ", ".join(e["args"])), where(f, e["line"]))
    if not R.findings and n_wr < 4:
        raise AnalysisBroken("layer.result-by-value: expected the apply() wrappers in oper_binary.cc / oper_unary.cc to install their result with res.set(value, node) (≥4 sites), found %d" % n_wr)
    return R
