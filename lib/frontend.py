"""Front end: compilation database from /repo's own build description, msa runs per unit,
content-addressed cache of the extracted facts, merged program model.

Nothing here executes MEDDLY code or its tests; `make` is never invoked (a `make -n -B` in an
automake tree re-runs automake/configure as a side effect), the unit list and flags are read
from src/Makefile.am (tracked) and src/Makefile (generated, optional)."""
import hashlib
import json
import os
import re
import shutil
import subprocess
import sys
import time
from concurrent.futures import ThreadPoolExecutor

VERIF = os.path.dirname(os.path.dirname(os.path.abspath(__file__)))
REPO = os.environ.get("MSA_REPO", "/repo")
SRC = os.path.join(REPO, "src")
MSA = os.path.join(VERIF, "tool", "bin", "msa")
CACHE = os.path.join(VERIF, ".cache")
JOBS = int(os.environ.get("MSA_JOBS", "16"))


class AnalysisBroken(Exception):
    """No verdict possible (exit 2): a unit does not parse, an anchor vanished, a floor is missed."""


def _read(path):
    with open(path, "rb") as f:
        return f.read()


def unit_list():
    """Units of libmeddly as declared in src/Makefile.am (what the build covers)."""
    am = os.path.join(SRC, "Makefile.am")
    if not os.path.exists(am):
        raise AnalysisBroken("src/Makefile.am is missing: cannot tell what the build covers")
    text = _read(am).decode()
    text = text.replace("\\\n", " ")
    m = re.search(r"^libmeddly_la_SOURCES\s*=(.*)$", text, re.M)
    if not m:
        raise AnalysisBroken("libmeddly_la_SOURCES not found in src/Makefile.am")
    units = [w for w in m.group(1).split() if w.endswith(".cc")]
    missing = [u for u in units if not os.path.exists(os.path.join(SRC, u))]
    if missing:
        raise AnalysisBroken("units listed in Makefile.am are missing: %s" % missing)
    return units


def build_flags():
    """DEFS/CPPFLAGS/CXXFLAGS of the real build when src/Makefile exists, the autotools defaults otherwise."""
    flags = {"DEFS": "-DHAVE_CONFIG_H", "CPPFLAGS": "", "CXXFLAGS": "", "AM_CXXFLAGS": "-Wall", "AM_CPPFLAGS": ""}
    mk = os.path.join(SRC, "Makefile")
    src = "defaults"
    if os.path.exists(mk):
        src = "src/Makefile"
        for line in _read(mk).decode(errors="replace").splitlines():
            m = re.match(r"^(DEFS|CPPFLAGS|CXXFLAGS|AM_CXXFLAGS|AM_CPPFLAGS)\s*=\s*(.*)$", line)
            if m:
                flags[m.group(1)] = m.group(2).strip()
    if not os.path.exists(os.path.join(REPO, "config.h")):
        # unconfigured tree: defines.h includes ../config.h only under HAVE_CONFIG_H
        flags["DEFS"] = flags["DEFS"].replace("-DHAVE_CONFIG_H", "").strip()
    parts = [flags["DEFS"], "-I.", "-I..", flags["AM_CPPFLAGS"], flags["CPPFLAGS"], flags["AM_CXXFLAGS"], flags["CXXFLAGS"]]
    words = " ".join(p for p in parts if p).split()
    # keep only what affects parsing
    keep = [w for w in words if w.startswith(("-D", "-U", "-I", "-std", "-f", "-W"))]
    keep += ["-std=gnu++17", "-UNDEBUG", "-Wno-everything"]
    return keep, src


def write_compdb(dbdir, units, flags):
    os.makedirs(dbdir, exist_ok=True)
    db = []
    for u in units:
        db.append({"directory": SRC, "file": os.path.join(SRC, u),
                   "command": "clang++ %s -c %s" % (" ".join(flags), u)})
    with open(os.path.join(dbdir, "compile_commands.json"), "w") as f:
        json.dump(db, f, indent=1)


def tree_hash(extra=b""):
    """sha256 of every source file the analysis can see (src/**/*.cc|h, config.h, Makefile.am) + msa + extra."""
    h = hashlib.sha256()
    files = []
    for root, dirs, names in os.walk(SRC):
        dirs[:] = sorted(d for d in dirs if not d.startswith("."))
        for n in sorted(names):
            if n.endswith((".cc", ".h", ".hh", ".am")):
                files.append(os.path.join(root, n))
    cfg = os.path.join(REPO, "config.h")
    if os.path.exists(cfg):
        files.append(cfg)
    for p in files:
        h.update(p.encode())
        h.update(b"\0")
        h.update(_read(p))
        h.update(b"\0")
    st = os.stat(MSA) if os.path.exists(MSA) else None
    if st:
        h.update(_read(MSA))
    h.update(extra)
    return h.hexdigest(), len(files)


def ensure_msa():
    if os.path.exists(MSA):
        return
    # several checks may start at once on a fresh copy: build under a lock, and look again once we hold it
    import fcntl
    with open(os.path.join(VERIF, "tool", ".build.lock"), "w") as lk:
        fcntl.flock(lk, fcntl.LOCK_EX)
        if os.path.exists(MSA):
            return
        r = subprocess.run(["make", "-C", os.path.join(VERIF, "tool"), "-j%d" % JOBS], capture_output=True, text=True)
        if r.returncode != 0 or not os.path.exists(MSA):
            raise AnalysisBroken("tool/bin/msa is not built and `make -C tool` failed:\n" + r.stdout[-2000:] + r.stderr[-2000:])


class Frontend:
    def __init__(self):
        ensure_msa()
        self.units = unit_list()
        self.flags, self.flag_source = build_flags()
        self.key, self.nfiles = tree_hash(" ".join(self.flags).encode())
        self.dir = os.path.join(CACHE, self.key[:24])
        self.dbdir = os.path.join(self.dir, "db")
        os.makedirs(self.dir, exist_ok=True)
        write_compdb(self.dbdir, self.units, self.flags)
        self._prune()
        self.timing = {}

    def _prune(self):
        try:
            ents = [os.path.join(CACHE, d) for d in os.listdir(CACHE)]
            ents = [d for d in ents if os.path.isdir(d) and d != self.dir]
            ents.sort(key=lambda d: os.stat(d).st_mtime, reverse=True)
            now = time.time()
            for d in ents[4:]:
                # never remove a cache another (concurrent) check may still be filling: only entries idle for 20 minutes
                if now - os.stat(d).st_mtime > 1200:
                    shutil.rmtree(d, ignore_errors=True)
            os.utime(self.dir, None)
        except OSError:
            pass

    def run_engine(self, engine, units=None, extra_args=(), tag=None):
        """Run msa --engine on each unit (one JSON file per unit); returns {unit: parsed result}."""
        units = list(units) if units is not None else self.units
        tag = tag or engine
        outdir = os.path.join(self.dir, tag)
        os.makedirs(outdir, exist_ok=True)
        t0 = time.time()

        def outfile(u):
            return os.path.join(outdir, u.replace("/", "__") + ".json")

        pending = [u for u in units if not os.path.exists(outfile(u))]
        errs = []
        if pending:
            # a few long-lived processes instead of one per unit: process start-up (mapping and
            # relocating libclang-cpp/libLLVM) dominates and does not scale in this sandbox
            nproc = max(1, min(JOBS // 2 or 1, len(pending)))
            sizes = {u: os.path.getsize(os.path.join(SRC, u)) for u in pending}
            batches = [[] for _ in range(nproc)]
            load = [0] * nproc
            for u in sorted(pending, key=lambda x: -sizes[x]):
                i = load.index(min(load))
                batches[i].append(u)
                load[i] += sizes[u] + 20000

            def run(batch):
                cmd = [MSA, "-p", self.dbdir, "--engine=" + engine, "--out-dir=" + outdir, "--src-root=" + SRC] + list(extra_args) + [os.path.join(SRC, u) for u in batch]
                r = subprocess.run(cmd, capture_output=True, text=True)
                return batch, r

            with ThreadPoolExecutor(max_workers=nproc) as ex:
                for batch, r in ex.map(run, batches):
                    for u in batch:
                        if not os.path.exists(outfile(u)):
                            errs.append("%s: no output (msa exit %d) %s" % (u, r.returncode, (r.stderr or "")[-1500:]))
        res = {}
        for u in units:
            if not os.path.exists(outfile(u)):
                continue
            try:
                with open(outfile(u)) as f:
                    d = json.load(f)
            except Exception as e:  # corrupt cache entry
                os.unlink(outfile(u))
                errs.append("%s: corrupt output: %s" % (u, e))
                continue
            if not d.get("parse_ok"):
                os.unlink(outfile(u))
                errs.append("%s: does not parse with the build's flags" % u)
                continue
            res[u] = d["results"][0]
        self.timing[tag] = round(time.time() - t0, 2)
        if errs:
            raise AnalysisBroken("msa failed on %d unit(s) (engine %s):\n%s" % (len(errs), engine, "\n".join(errs)[:4000]))
        return res


class Program:
    """Merged facts of all units: functions de-duplicated by (inst, file, line)."""

    def __init__(self, fe, units=None):
        self.fe = fe
        raw = fe.run_engine("facts", units)
        self.units = sorted(raw)
        self.fns = {}       # key -> function record
        self.by_q = {}      # qualified name -> [records]
        self.classes = {}   # q -> bases
        for u in self.units:
            r = raw[u]
            for c in r["classes"]:
                self.classes.setdefault(c["q"], c["bases"])
            for f in r["functions"]:
                k = (f["inst"], f["sig"], f["file"], f["line"])
                if k in self.fns:
                    continue
                f["unit"] = u
                if "class" in f:
                    f["cls"] = f["q"].rsplit("::", 1)[0]   # with template arguments, unlike f["class"]
                self.fns[k] = f
                self.by_q.setdefault(f["q"], []).append(f)
        self._overriders = None
        self._callers = None

    # ---- lookup ------------------------------------------------------------------------------
    def find(self, q, sig_contains=None, required=True):
        out = [f for f in self.by_q.get(q, []) if sig_contains is None or sig_contains in f["sig"]]
        if required and not out:
            raise AnalysisBroken("anchor function %s%s no longer exists" % (q, " with signature containing " + sig_contains if sig_contains else ""))
        return out

    def match(self, pred):
        return [f for f in self.fns.values() if pred(f)]

    def subclasses(self, base):
        """all classes (transitively) derived from `base` (qualified), including itself"""
        out = {base}
        changed = True
        while changed:
            changed = False
            for c, bs in self.classes.items():
                if c not in out and any(b in out for b in bs):
                    out.add(c)
                    changed = True
        return out

    # ---- call graph ---------------------------------------------------------------------------
    def overriders(self):
        """map 'q+sig' of a virtual method -> set of q of methods that (transitively) override it"""
        if self._overriders is None:
            direct = {}
            for f in self.fns.values():
                for o in f.get("overrides", []):
                    direct.setdefault(o, set()).add(f["q"] + f["sig"])
            clo = {}
            for k in direct:
                seen = set()
                stack = [k]
                while stack:
                    x = stack.pop()
                    for y in direct.get(x, ()):
                        if y not in seen:
                            seen.add(y)
                            stack.append(y)
                clo[k] = seen
            self._overriders = clo
        return self._overriders

    def callees(self, f):
        """resolved callee names of f; virtual calls expand to every overrider"""
        out = set()
        ov = self.overriders()
        for c in f["calls"]:
            out.add(c["q"])
            if c.get("virt"):
                for o in ov.get(c["q"] + c["sig"], ()):
                    out.add(o.split("(")[0])
        return out

    def callers_of(self, q):
        """records of functions with a (possibly virtual-dispatched) call to q"""
        if self._callers is None:
            m = {}
            for f in self.fns.values():
                for c in self.callees(f):
                    m.setdefault(c, []).append(f)
            self._callers = m
        return self._callers.get(q, [])

    def reachable_from(self, q_roots, stop=()):
        """names reachable in the call graph from the given qualified names (not descending into `stop`)"""
        seen = set()
        stack = list(q_roots)
        while stack:
            q = stack.pop()
            if q in seen:
                continue
            seen.add(q)
            if q in stop:
                continue
            for f in self.by_q.get(q, []):
                for c in self.callees(f):
                    if c not in seen:
                        stack.append(c)
        return seen


def where(f, line=None):
    return "src/%s:%s" % (f["file"], line if line is not None else f["line"])


def base_name(q):
    """qualified name with every template argument list removed: a<b<c>,d>::f -> a::f"""
    out = []
    depth = 0
    for ch in q:
        if ch == "<":
            depth += 1
        elif ch == ">":
            depth -= 1
        elif depth == 0:
            out.append(ch)
    return "".join(out)
