"""own — reference-ownership typing of node handles (DESIGN §2.1), decided by `msa --engine=own`.

The armed scope is the set of source files whose handle traffic uses the new operation interface
(out-parameter = owned result, by-value parameter = borrowed) that the summary table describes.
Functions of other files are analysed too (thorough tier) but only reported as advisory notes:
the deprecated `compute_rec`-style operations return handles by value with a different convention."""
from core import Finding, RuleResult
from frontend import AnalysisBroken, base_name

M = "MEDDLY::"

OWN_SCOPE_FILES = {
    "forest.cc", "forest.h", "dd_edge.cc", "dd_edge.h", "unpacked_node.cc", "unpacked_node.h", "io_mdds.cc", "minterms.cc", "minterms.h",
    "oper_binary.cc", "oper_unary.cc", "oper_binary.h", "oper_unary.h", "rel_node.h",
    "operations/union.cc", "operations/intersection.cc", "operations/difference.cc", "operations/complement.cc", "operations/cross.cc",
    "operations/copy.cc", "operations/compare.cc", "operations/dist_inc.cc", "operations/user_unary.cc", "operations/maxmin_range.cc",
    "operations/cardinality.cc", "operations/mdd2index.cc", "operations/prepost_sets.cc", "operations/prepost_common.h", "operations/reach_trad.cc",
    "operations/satur_sets.cc", "operations/arith_templ.h", "operations/arith_plus.cc", "operations/arith_minus.cc", "operations/arith_mult.cc",
    "operations/arith_div.cc", "operations/arith_mod.cc", "operations/arith_max.cc", "operations/arith_min.cc", "operations/arith_distmin.cc",
    "forests/mtmdd.cc", "forests/mtmxd.cc", "forests/evmdd_pluslong.cc", "forests/mt.cc",
}
OWN_SCOPE_UNITS = sorted(f for f in OWN_SCOPE_FILES if f.endswith(".cc"))


def own_results(ctx):
    def run():
        units = None if ctx.tier == "thorough" else OWN_SCOPE_UNITS
        raw = ctx.fe.run_engine("own", units)
        seen = {}
        for u in sorted(raw):
            for f in raw[u]["functions"]:
                k = (f["inst"], f["sig"], f["file"], f["line"])
                seen.setdefault(k, f)
        return list(seen.values()), len(raw)
    return ctx.memo("engine.own", run)


def _rule(ctx, name, desc, files, floor, rules=None):
    R = RuleResult(name, desc)
    fns, nunits = own_results(ctx)
    adv = 0
    for f in sorted(fns, key=lambda f: (f["file"], f["line"], f["inst"])):
        in_scope = f["file"] in files
        if f.get("gave_up"):
            if in_scope:
                raise AnalysisBroken("%s: state explosion in %s" % (name, f["inst"]))
            continue
        ds = [d for d in f["diags"] if rules is None or d["rule"] in rules]
        if not in_scope:
            if f["file"] not in OWN_SCOPE_FILES:
                adv += len(ds)
            continue
        R.functions.add(f["inst"])
        R.paths += f["states"]
        fn = base_name(f["q"])
        if not ds:
            R.ok("%s%s: %d ownership event(s) on all non-throwing paths" % (f["inst"].replace(M, ""), f["sig"][:40], f["events"]), "src/%s:%d" % (f["file"], f["line"]), events=f["events"], states=f["states"])
            continue
        by = {}
        for d in ds:
            by.setdefault((d["rule"], d["sink"]), []).append(d)
        for (rule, sink), dd in sorted(by.items()):
            lines = sorted({d["line"] for d in dd})
            R.fail("%s%s: %s" % (f["inst"].replace(M, ""), f["sig"][:40], sink), "src/%s:%d" % (f["file"], lines[0]),
                   Finding(rule, f["file"], fn, sink, dd[0]["msg"], lines[0], inst=f["inst"]))
    if adv:
        R.notes.append("advisory (not armed): %d ownership diagnostics in files outside the armed scope (deprecated compute_rec-style operations)" % adv)
    R.notes.append("%d units analysed by the own engine" % nunits)
    R.require_floor(floor, "function instances with tracked node handles")
    return R


def rule_own(ctx):
    return _rule(ctx, "own", "every node_handle reference is created, moved and released exactly once on every non-throwing path (borrowed-escapes, leak, double-move, release-borrowed, unpacked-node typestate)",
                 OWN_SCOPE_FILES, 690)


READER_FILES = {"io_mdds.cc", "unpacked_node.cc", "unpacked_node.h", "dd_edge.cc"}


def rule_own_reader(ctx):
    return _rule(ctx, "own.reader", "ownership discipline in the exchange-file reader, unpacked_node::read and dd_edge::read (reader leaves exact reference counts)",
                 READER_FILES, 40)


SWAP_FILES = {"forests/mtmdd.cc", "forests/mtmxd.cc", "forests/evmdd_pluslong.cc"}


def rule_own_swap(ctx):
    return _rule(ctx, "own.swap", "ownership discipline in the adjacent-variable swap routines (handles through children[][] arrays are untracked: partially modelled)",
                 SWAP_FILES, 3)
