"""codec — writer/reader agreement of the exchange format and of the terminal encoding (DESIGN §2.6).

For declared writer/reader pairs the facts engine's events are reduced to an abstract signature
(token tables, keyword lists, section order, traversal order) and the two sides are compared."""
import re

from cfg import Graph, qmatch, show_path
from core import Finding, RuleResult
from frontend import AnalysisBroken, where, base_name

M = "MEDDLY::"


def switch_cases(g):
    """[{label: set(node ids exclusive to that case)}] for every switch of the function"""
    out = []
    for n in g.nodes:
        if n.kind != "branch" or g.blocks[n.block].get("term") != "SwitchStmt":
            continue
        labs = {}
        for (s, i), lab in zip(n.succ, [l for l in (n.labels or []) if True][:len(n.succ)]):
            pass
        reach = {}
        for s, i in n.succ:
            lab = g.blocks[g.nodes[s].block].get("label")
            if lab is None:
                continue
            reach[lab] = g.reach([s])
        if not reach:
            continue
        common = set.intersection(*reach.values()) if len(reach) > 1 else set()
        out.append({lab: (r - common) for lab, r in reach.items()})
    return out


def _lits(text):
    """string / char literals inside a clang-printed expression"""
    return re.findall(r'"((?:[^"\\]|\\.)*)"', text), re.findall(r"'((?:[^'\\]|\\.))'", text)


def _enum(label):
    return label.replace("case ", "").split("::")[-1].strip()


def _char(label):
    m = re.search(r"'(.)'", label)
    return m.group(1) if m else None


def rule_tokens(P):
    R = RuleResult("codec.tokens", "terminal::write/read and edge_value::write/read use the same type letters, paired with the same types, and the same boolean letters")
    # --- terminal ---
    w = P.find(M + "terminal::write")[0]
    r = P.find(M + "terminal::read")[0]
    gw, gr = Graph(w), Graph(r)
    R.functions |= {w["inst"], r["inst"]}
    wmap, bools_w = {}, set()
    for cases in switch_cases(gw):
        for lab, ids in cases.items():
            if lab == "default":
                continue
            for i in ids:
                n = gw.nodes[i]
                if n.kind == "call" and n.ev["q"].endswith("output::put"):
                    for a in n.ev["args"]:
                        ss, cs = _lits(a)
                        for s in ss:
                            if s.strip().isalpha() and len(s.strip()) == 1:
                                wmap[_enum(lab)] = s.strip()
                        if _enum(lab) == "BOOLEAN":
                            bools_w |= set(cs)
    setter = {"setOmega": "OMEGA", "setBoolean": "BOOLEAN", "setInteger": "INTEGER", "setReal": "REAL"}
    rmap, bools_r = {}, set()
    for cases in switch_cases(gr):
        for lab, ids in cases.items():
            ch = _char(lab)
            if ch is None:
                continue
            for i in ids:
                n = gr.nodes[i]
                if n.kind == "call" and n.ev["q"].split("::")[-1] in setter:
                    rmap[setter[n.ev["q"].split("::")[-1]]] = ch
                if n.kind == "branch" and n.cond and n.cond.get("op") == "==" and ch == "b":
                    for side in (n.cond["l"], n.cond["r"]):
                        if "const" in side and 32 < side["const"] < 127:
                            bools_r.add(chr(side["const"]))
    if len(wmap) < 4 or len(rmap) < 4:
        raise AnalysisBroken("codec.tokens: could not extract the terminal letter tables (writer %s, reader %s)" % (wmap, rmap))
    for t in sorted(set(wmap) | set(rmap)):
        iid = "terminal %s: written '%s', read '%s'" % (t, wmap.get(t), rmap.get(t))
        if wmap.get(t) == rmap.get(t):
            R.ok(iid, where(w))
        else:
            R.fail(iid, where(w), Finding(R.rule, w["file"], w["q"], "letter:" + t, "terminal type %s is written with letter %r but read from letter %r" % (t, wmap.get(t), rmap.get(t)), w["line"]))
    if len(set(wmap.values())) != len(wmap):
        R.fail("terminal letters distinct", where(w), Finding(R.rule, w["file"], w["q"], "letters", "two terminal types share a letter: %s" % wmap, w["line"]))
    iid = "boolean terminals: written %s, accepted %s" % (sorted(bools_w), sorted(bools_r))
    if bools_w == bools_r and len(bools_w) == 2:
        R.ok(iid, where(w))
    else:
        R.fail(iid, where(w), Finding(R.rule, w["file"], w["q"], "bool-letters", "boolean terminal letters differ between writer %s and reader %s" % (sorted(bools_w), sorted(bools_r)), w["line"]))
    # --- edge values ---
    w = P.find(M + "edge_value::write")[0]
    r = P.find(M + "edge_value::read")[0]
    gw, gr = Graph(w), Graph(r)
    R.functions |= {w["inst"], r["inst"]}
    wmap = {}
    for cases in switch_cases(gw):
        for lab, ids in cases.items():
            for i in ids:
                n = gw.nodes[i]
                if n.kind == "call" and n.ev["q"].endswith("output::put"):
                    for a in n.ev["args"]:
                        for s in _lits(a)[0]:
                            if s.strip().isalpha() and len(s.strip()) == 1:
                                wmap[_enum(lab)] = s.strip()
    sig2type = {"()": "VOID", "(int)": "INT", "(long)": "LONG", "(float)": "FLOAT", "(double)": "DOUBLE"}
    rmap = {}
    for cases in switch_cases(gr):
        for lab, ids in cases.items():
            ch = _char(lab)
            if ch is None:
                continue
            for i in ids:
                n = gr.nodes[i]
                if n.kind == "call" and n.ev["q"] == M + "edge_value::set" and n.ev.get("recv") == "this":
                    t = sig2type.get(n.ev.get("sig"))
                    if t:
                        rmap[t] = ch
    if len(wmap) < 5 or len(rmap) < 5:
        raise AnalysisBroken("codec.tokens: could not extract the edge-value letter tables (writer %s, reader %s)" % (wmap, rmap))
    for t in sorted(set(wmap) | set(rmap)):
        iid = "edge value %s: written '%s', read '%s'" % (t, wmap.get(t), rmap.get(t))
        if wmap.get(t) == rmap.get(t):
            R.ok(iid, where(w))
        else:
            R.fail(iid, where(w), Finding(R.rule, w["file"], w["q"], "letter:" + t, "edge-value type %s is written with letter %r but read from letter %r" % (t, wmap.get(t), rmap.get(t)), w["line"]))
    R.require_floor(10, "letter pairs")
    return R


FROM_HANDLE_CTOR = "(enum MEDDLY::terminal_type,MEDDLY::node_handle)"


def rule_terminal_io(P):
    R = RuleResult("codec.terminal-io", "a terminal written to the exchange file is decoded from its handle (setFromHandle / terminal(type, handle)); a terminal read back is encoded with getHandle; non-terminals use the `n <id>` form on both sides")
    for q in (M + "dd_edge::write", M + "unpacked_node::write"):
        f = P.find(q)[0]
        g = Graph(f)
        R.functions.add(f["inst"])
        writes = g.calls("terminal::write")
        if not writes:
            raise AnalysisBroken("codec.terminal-io: %s no longer writes terminals" % q)
        from_handle = lambda n: (n.kind == "call" and qmatch(n.ev["q"], "terminal::setFromHandle")) or (n.kind == "construct" and n.ev["q"] == M + "terminal::terminal" and n.ev.get("sig") == FROM_HANDLE_CTOR)
        by_value = [n for n in g.nodes if n.kind == "construct" and n.ev["q"] == M + "terminal::terminal" and n.ev.get("sig") not in (FROM_HANDLE_CTOR, "()") and "const class MEDDLY::terminal" not in n.ev.get("sig", "")]
        for wn in writes:
            R.paths += 1
            p = g.path(g.entry, lambda n: n.id == wn.id, avoid=from_handle)
            iid = "%s: terminal::write only after decoding the handle" % q.replace(M, "")
            if not p and not by_value:
                R.ok(iid, where(f, wn.line))
            else:
                bad = by_value[0] if by_value else wn
                R.fail(iid, where(f, bad.line), Finding(R.rule, f["file"], q, "terminal::write",
                       "the terminal written is not built from the node handle (%s): the raw handle bits, not the value, reach the file" % (
                           "constructed by value with signature %s" % bad.ev.get("sig") if by_value else "no setFromHandle / terminal(type, handle) on some path"), bad.line, show_path(p) if p else None))
        ns = [n for n in g.nodes if n.kind == "call" and n.ev["q"].endswith("output::put") and any("n" == s.strip() for a in n.ev["args"] for s in _lits(a)[0])]
        iid = "%s: non-terminal written as `n <id>`" % q.replace(M, "")
        if ns:
            R.ok(iid, where(f, ns[0].line))
        else:
            R.fail(iid, where(f), Finding(R.rule, f["file"], q, "n-token", "the non-terminal marker `n` is no longer written", f["line"]))
    for q in (M + "dd_edge::read", M + "unpacked_node::read"):
        f = P.find(q)[0]
        g = Graph(f)
        R.functions.add(f["inst"])
        reads = g.calls("terminal::read")
        if not reads:
            raise AnalysisBroken("codec.terminal-io: %s no longer reads terminals" % q)
        for rn in reads:
            R.paths += 1
            p = g.path(rn, lambda n: n.id == g.exit, avoid=lambda n: n.kind == "call" and qmatch(n.ev["q"], "terminal::getHandle"))
            iid = "%s: terminal::read is followed by getHandle" % q.replace(M, "")
            if not p:
                R.ok(iid, where(f, rn.line))
            else:
                R.fail(iid, where(f, rn.line), Finding(R.rule, f["file"], q, "terminal::read", "a terminal read from the file is not turned into a handle with getHandle on some path", rn.line, show_path(p)))
        nt = [n for n in g.nodes if n.kind == "branch" and n.cond and n.cond.get("op") == "==" and any(side.get("const") == ord("n") for side in (n.cond["l"], n.cond["r"]))]
        iid = "%s: non-terminal recognised by `n`" % q.replace(M, "")
        if nt:
            R.ok(iid, where(f, nt[0].line))
        else:
            R.fail(iid, where(f), Finding(R.rule, f["file"], q, "n-token", "the non-terminal marker `n` is no longer recognised", f["line"]))
    R.require_floor(8, "terminal I/O obligations")
    return R


def _first_lines(g, preds):
    """CFG-order (by source line) of the first event satisfying each named predicate"""
    out = []
    for name, pred in preds:
        ls = [n.line for n in g.nodes if pred(n) and n.line]
        if ls:
            out.append((min(ls), name))
    return [n for _, n in sorted(out)]


def rule_sections(P):
    R = RuleResult("codec.sections", "unpacked_node::write and ::read agree on the order and guards of a node record's sections: [indexes iff sparse][down pointers][edge values iff hasEdges][header info]")
    w = P.find(M + "unpacked_node::write")[0]
    r = P.find(M + "unpacked_node::read")[0]
    gw, gr = Graph(w), Graph(r)
    R.functions |= {w["inst"], r["inst"]}
    wsec = _first_lines(gw, [("index", lambda n: n.kind == "call" and qmatch(n.ev["q"], "unpacked_node::index")),
                             ("down", lambda n: n.kind == "call" and qmatch(n.ev["q"], "unpacked_node::down")),
                             ("edge", lambda n: n.kind == "call" and qmatch(n.ev["q"], "edge_value::write")),
                             ("header", lambda n: n.kind == "call" and qmatch(n.ev["q"], "forest::writeHeaderInfo"))])
    rsec = _first_lines(gr, [("index", lambda n: n.kind == "store" and n.ev["member"].endswith("unpacked_node::_index")),
                             ("down", lambda n: n.kind == "store" and n.ev["member"].endswith("unpacked_node::_down")),
                             ("edge", lambda n: n.kind == "call" and qmatch(n.ev["q"], "edge_value::read")),
                             ("header", lambda n: n.kind == "call" and qmatch(n.ev["q"], "forest::readHeaderInfo"))])
    iid = "section order: written %s, read %s" % (wsec, rsec)
    if wsec == rsec == ["index", "down", "edge", "header"]:
        R.ok(iid, where(w))
    else:
        R.fail(iid, where(r), Finding(R.rule, r["file"], r["q"], "order", "node record sections are written as %s but read as %s" % (wsec, rsec), r["line"]))
    # guards: index section under isSparse, edge section under hasEdges, on both sides
    for g, f, sec, guard, pred in (
            (gw, w, "index", "unpacked_node::isSparse", lambda n: n.kind == "call" and qmatch(n.ev["q"], "unpacked_node::index")),
            (gr, r, "index", "unpacked_node::isSparse", lambda n: n.kind == "store" and n.ev["member"].endswith("unpacked_node::_index")),
            (gw, w, "edge", "unpacked_node::hasEdges", lambda n: n.kind == "call" and qmatch(n.ev["q"], "edge_value::write")),
            (gr, r, "edge", "unpacked_node::hasEdges", lambda n: n.kind == "call" and qmatch(n.ev["q"], "edge_value::read"))):
        edges = set()
        for n in g.nodes:
            if n.kind == "branch" and n.cond and len(n.succ) == 2 and any(c.endswith(guard) for c in n.cond["calls"]) and n.cond.get("op") == "truth":
                edges.add((n.id, 1 if n.cond.get("neg") else 0))
        R.paths += 1
        p = g.path(g.entry, pred, avoid_edge=lambda n, i: (n.id, i) in edges)
        iid = "%s: %s section only when %s()" % (f["q"].replace(M, ""), sec, guard.split("::")[-1])
        if edges and not p:
            R.ok(iid, where(f))
        else:
            R.fail(iid, where(f), Finding(R.rule, f["file"], f["q"], sec + "-guard", "the %s section is not guarded by %s on this side" % (sec, guard), f["line"], show_path(p) if p else None))
    # unguarded sections must be unconditional
    for g, f, sec, pred in ((gw, w, "header", lambda n: n.kind == "call" and qmatch(n.ev["q"], "forest::writeHeaderInfo")),
                            (gr, r, "header", lambda n: n.kind == "call" and qmatch(n.ev["q"], "forest::readHeaderInfo"))):
        R.paths += 1
        p = g.path(g.entry, lambda n: n.id == g.exit, avoid=pred)
        iid = "%s: header info on every normal path" % f["q"].replace(M, "")
        if not p:
            R.ok(iid, where(f))
        else:
            R.fail(iid, where(f), Finding(R.rule, f["file"], f["q"], "header", "header info section skipped on some path", f["line"], show_path(p)))
    R.require_floor(7, "section obligations")
    return R


def _words(g, callee_suffixes):
    out = []
    for n in sorted((n for n in g.nodes if n.kind == "call"), key=lambda n: n.line or 0):
        if any(n.ev["q"].endswith(s) for s in callee_suffixes):
            for a in n.ev["args"]:
                for s in _lits(a)[0]:
                    for wd in re.findall(r"[A-Za-z]{3,}", s.replace("\\n", " ").replace("\\t", " ")):
                        out.append(wd)
    # a chained `out << "ptrs " << n << "\n"` prints its left operand again in every outer call: keep first occurrences
    uniq = []
    for wd in out:
        if wd not in uniq:
            uniq.append(wd)
    return uniq


def rule_keywords(P):
    R = RuleResult("codec.keywords", "section keywords of the exchange file: the writer emits exactly the keywords the reader consumes, in the same order (ptrs/srtp; dom/mod)")
    pairs = [(M + "mdd_writer::finish", [M + "mdd_reader::readAfterForest"], ["ptrs", "srtp"]),
             (M + "domain::write", [M + "domain::create", M + "domain::verify"], ["dom", "mod"])]
    for wq, rqs, expect in pairs:
        w = P.find(wq)[0]
        gw = Graph(w)
        R.functions.add(w["inst"])
        ww = [x for x in _words(gw, ("operator<<", "output::put")) if x in expect or x.islower()]
        for rq in rqs:
            for r in P.find(rq):
                if rq.endswith("domain::create") and "input" not in r["sig"]:
                    continue
                gr = Graph(r)
                R.functions.add(r["inst"])
                rw = _words(gr, ("input::consumeKeyword",))
                iid = "%s writes %s; %s%s consumes %s" % (wq.replace(M, ""), ww, rq.replace(M, ""), r["sig"][:30], rw)
                if ww == rw == expect:
                    R.ok(iid, where(r))
                else:
                    R.fail(iid, where(r), Finding(R.rule, r["file"], rq, "keywords", "keywords written %s and consumed %s differ (expected %s)" % (ww, rw, expect), r["line"]))
    R.require_floor(3, "keyword pairs")
    return R


def rule_code_chars(P):
    R = RuleResult("codec.code-chars", "the forest code string: buildCodeChars (forest kind -> characters) and code2forest (characters -> forest kind) are inverse maps")
    w = [f for f in P.fns.values() if f["q"].endswith("::buildCodeChars")]
    r = [f for f in P.fns.values() if f["q"].endswith("::code2forest")]
    if not w or not r:
        raise AnalysisBroken("codec.code-chars: buildCodeChars/code2forest not found")
    w, r = w[0], r[0]
    gw, gr = Graph(w), Graph(r)
    R.functions |= {w["inst"], r["inst"]}
    # writer: enum case -> {position: char}
    wmap = {}
    for cases in switch_cases(gw):
        for lab, ids in cases.items():
            if lab == "default":
                continue
            d = {}
            for i in ids:
                n = gw.nodes[i]
                if n.kind == "astore" and n.ev["var"] == "buf":
                    cs = _lits(n.ev["rhs"])[1]
                    if cs:
                        d[n.ev["index"]] = cs[0]
            wmap[_enum(lab)] = "".join(d[k] for k in sorted(d))
    # set/relation position (no switch)
    sr_w = sorted(_lits(n.ev["rhs"])[1][0] for n in gw.nodes if n.kind == "astore" and n.ev["var"] == "buf" and n.ev["index"] == "5" and _lits(n.ev["rhs"])[1])
    # reader: char case -> enum assigned
    rmap = {}
    for cases in switch_cases(gr):
        for lab, ids in cases.items():
            ch = _char(lab)
            if ch is None:
                continue
            for i in sorted(ids):
                n = gr.nodes[i]
                if n.kind == "ldef" and n.ev["var"] in ("EL", "RT") and "::" in n.ev["rhs"]:
                    en = n.ev["rhs"].split("::")[-1]
                    # second character: taken from the governing comparison if there is one, else from validateChar
                    second = ""
                    vc = [m for m in (gr.nodes[j] for j in ids) if m.kind == "call" and m.ev["q"].endswith("validateChar")]
                    legal = _lits(vc[0].ev["args"][1])[0][0] if vc else ""
                    cmpn = [m for m in (gr.nodes[j] for j in ids) if m.kind == "branch" and m.cond and m.cond.get("op") == "=="]
                    if cmpn and len(legal) == 2:
                        c0 = [chr(s["const"]) for s in (cmpn[0].cond["l"], cmpn[0].cond["r"]) if "const" in s][0]
                        on_true = n.id in gr.reach([s for s, k in cmpn[0].succ if k == 0]) and n.id not in gr.reach([s for s, k in cmpn[0].succ if k == 1])
                        second = c0 if on_true else legal.replace(c0, "")
                    else:
                        second = legal
                    rmap[en] = ch + second
    sr_r = sorted(set("".join(_lits(n.ev["args"][1])[0]) for n in gr.nodes if n.kind == "call" and n.ev["q"].endswith("validateChar") and n.ev["args"][0].endswith("[5]")))
    if len(wmap) < 7 or len(rmap) < 7:
        raise AnalysisBroken("codec.code-chars: could not extract both maps (writer %s, reader %s)" % (wmap, rmap))
    for en in sorted(set(wmap) | set(rmap)):
        iid = "%s: written '%s', recognised '%s'" % (en, wmap.get(en), rmap.get(en))
        if wmap.get(en) == rmap.get(en):
            R.ok(iid, where(w))
        else:
            R.fail(iid, where(r), Finding(R.rule, r["file"], base_name(r["q"]), "code:" + en, "forest kind %s is written as %r but recognised from %r" % (en, wmap.get(en), rmap.get(en)), r["line"]))
    iid = "set/relation letter: written %s, accepted %s" % (sr_w, sr_r)
    if sr_r and sorted("".join(sr_r)) == sr_w:
        R.ok(iid, where(w))
    else:
        R.fail(iid, where(r), Finding(R.rule, r["file"], base_name(r["q"]), "code:set/rel", "set/relation letters differ: %s vs %s" % (sr_w, sr_r), r["line"]))
    R.require_floor(8, "code-character pairs")
    return R


def _loop_of(g, f):
    """the single counting loop of a small function: (init, cond text, inc)"""
    fs = [b for b in g.blocks.values() if b.get("term") == "ForStmt"]
    return fs


def rule_domain_order(P):
    """the bounds of a domain are written and re-read in the same variable order"""
    R = RuleResult("codec.domain-order", "domain::write and domain::create(input&) traverse the variables in the same order: the k-th number written is the bound of the variable that receives the k-th number read")
    w = P.find(M + "domain::write")[0]
    rs = [f for f in P.find(M + "domain::create") if "input" in f["sig"]]
    if not rs:
        raise AnalysisBroken("codec.domain-order: domain::create(input&) not found")
    r = rs[0]
    gw, gr = Graph(w), Graph(r)
    R.functions |= {w["inst"], r["inst"]}
    lw = [b for b in gw.blocks.values() if b.get("term") == "ForStmt"]
    lr = [b for b in gr.blocks.values() if b.get("term") == "ForStmt"]
    if len(lw) != 1 or len(lr) != 1:
        raise AnalysisBroken("codec.domain-order: expected one loop in each of domain::write / domain::create(input&)")
    def norm(text, count_names):
        t = re.sub(r"this->", "", text)
        for c in count_names:
            t = re.sub(r"\b%s\b" % re.escape(c), "COUNT", t)
        return re.sub(r"\s+", "", t)
    def loopvar(b):
        m = re.search(r"([A-Za-z_]\w*)\s*=", b["forinit"])
        return m.group(1) if m else None
    vw, vr = loopvar(lw[0]), loopvar(lr[0])
    hw = (norm(lw[0]["forinit"].split("=")[-1].rstrip(";"), ["nVars"]), norm(lw[0]["cond"]["text"], ["nVars"]).replace(vw, "i"), norm(lw[0]["forinc"], []).replace(vw, "i"))
    hr = (norm(lr[0]["forinit"].split("=")[-1].rstrip(";"), ["N"]), norm(lr[0]["cond"]["text"], ["N"]).replace(vr, "i"), norm(lr[0]["forinc"], []).replace(vr, "i"))
    iw = set()
    for n in gw.nodes:
        if n.kind == "call" and n.ev.get("recv"):
            m = re.search(r"vars\[(.*?)\]", n.ev["recv"])
            if m and qmatch(n.ev["q"], "variable::getBound"):
                iw.add(norm(m.group(1), ["nVars"]).replace(vw, "i"))
    ir = {norm(n.ev["index"], ["N"]).replace(vr, "i") for n in gr.nodes if n.kind == "astore" and n.ev["var"] == "vars" and "new" in n.ev["rhs"]}
    if not iw or not ir:
        raise AnalysisBroken("codec.domain-order: could not find the element accesses (writer %s, reader %s)" % (iw, ir))
    iid = "loop %s visiting vars[%s] (write)  vs  loop %s filling vars[%s] (create)" % (hw, sorted(iw), hr, sorted(ir))
    R.paths += 1
    if hw == hr and iw == ir:
        R.ok(iid, where(r))
    elif hw != hr:
        R.fail(iid, where(r), Finding(R.rule, r["file"], r["q"] + "(input&)", "traversal", "the two loops differ (%s vs %s): cannot establish the same order" % (hw, hr), r["line"]))
    else:
        R.fail(iid, where(r), Finding(R.rule, r["file"], r["q"] + "(input&)", "vars-index",
               "with identical loops, the writer emits the bound of vars[%s] but the reader stores the k-th number into vars[%s]: a domain re-created from a file has its variable bounds in reverse order" % (sorted(iw)[0], sorted(ir)[0]), r["line"]))
    R.require_floor(1, "domain traversal pair")
    return R


def rule_terminal_codec(P):
    """encoder (getIntegerHandle / getRealHandle / getHandle) and decoder (setFromHandle) of terminal handles agree on the
    flag bit and the shift amounts; zero/false is handle 0"""
    R = RuleResult("codec.terminal", "terminal handle encoder and decoder agree: flag bit = top bit, integer decode shifts out exactly the flag bit, real encode/decode shift by the same amount, zero and false map to handle 0")
    msb = P.find(M + "terminal::msb")[0]
    gm = Graph(msb)
    R.functions.add(msb["inst"])
    rets = [n.ev.get("const") for n in gm.nodes if n.kind == "ret"]
    iid = "msb() is the top bit of node_handle"
    if rets == [-(1 << 31)]:
        R.ok(iid, where(msb))
    else:
        R.fail(iid, where(msb), Finding(R.rule, msb["file"], msb["q"], "msb", "msb() folds to %s, expected the top bit of a 32-bit handle" % rets, msb["line"]))
    enc_i = P.find(M + "terminal::getIntegerHandle")[0]
    enc_r = P.find(M + "terminal::getRealHandle")[0]
    dec = P.find(M + "terminal::setFromHandle")[0]
    gi, gr, gd = Graph(enc_i), Graph(enc_r), Graph(dec)
    R.functions |= {enc_i["inst"], enc_r["inst"], dec["inst"]}
    live_i, live_r = gi.reach([gi.entry]), gr.reach([gr.entry])
    bi = [n.ev for n in gi.nodes if n.kind == "bin" and n.id in live_i]
    br = [n.ev for n in gr.nodes if n.kind == "bin" and n.id in live_r]
    dcase = {}
    for cases in switch_cases(gd):
        for lab, ids in cases.items():
            dcase[_enum(lab)] = [gd.nodes[i].ev for i in sorted(ids) if gd.nodes[i].kind == "bin"]
    if "INTEGER" not in dcase or "REAL" not in dcase:
        raise AnalysisBroken("codec.terminal: setFromHandle has no INTEGER/REAL cases")
    # integer: encode = value | msb ; decode = (h << k) >> k with k == 1 (drops exactly the flag bit, sign-extends)
    iid = "integer: encode sets only the flag bit"
    if len(bi) == 1 and bi[0]["op"] == "|" and "msb" in bi[0]["r"]["refs"]:
        R.ok(iid, where(enc_i))
    else:
        R.fail(iid, where(enc_i), Finding(R.rule, enc_i["file"], enc_i["q"], "int-encode", "integer handles are no longer `value | msb()`: %s" % [(b["op"], b["r"]["text"]) for b in bi], enc_i["line"]))
    di = dcase["INTEGER"]
    shl = [b["r"].get("const") for b in di if b["op"] == "<<"]
    shr = [b["r"].get("const") for b in di if b["op"] == ">>"]
    iid = "integer: decode shifts the flag bit out and sign-extends back (<<%s then >>%s)" % (shl, shr)
    if shl == [1] and shr == [1]:
        R.ok(iid, where(dec))
    else:
        R.fail(iid, where(dec), Finding(R.rule, dec["file"], dec["q"], "int-decode", "integer decode shifts %s left / %s right; the encoder sets exactly one flag bit, so both must be 1" % (shl, shr), dec["line"]))
    # real: encode = (bits >> c) | msb ; decode = h << c
    enc_shift = [b["r"].get("const") for b in br if b["op"] == ">>"]
    ors = [b for b in br if b["op"] == "|" and "msb" in b["r"]["refs"]]
    dec_shift = [b["r"].get("const") for b in dcase["REAL"] if b["op"] == "<<"]
    iid = "real: encode >>%s |msb, decode <<%s" % (enc_shift, dec_shift)
    if ors and enc_shift and dec_shift and set(enc_shift) == set(dec_shift) == {1} :
        R.ok(iid, where(enc_r))
    else:
        R.fail(iid, where(dec), Finding(R.rule, dec["file"], dec["q"], "real-shift", "real handles are encoded with >>%s but decoded with <<%s" % (enc_shift, dec_shift), dec["line"]))
    # zero / false -> handle 0
    for g, f, field in ((gi, enc_i, "t_integer"), (gr, enc_r, "t_real")):
        tests = [n for n in g.nodes if n.kind == "branch" and n.cond and n.cond.get("op") == "truth" and field in n.cond["l"]["refs"] and len(n.succ) == 2]
        iid = "%s: a zero value encodes to handle 0" % f["q"].replace(M, "")
        good = False
        for t in tests:
            zidx = 0 if t.cond.get("neg") else 1
            st = [s for s, i in t.succ if i == zidx][0]
            nxt = g.nodes[st]
            if nxt.kind == "ret" and nxt.ev.get("const") == 0:
                good = True
        if good:
            R.ok(iid, where(f))
        else:
            R.fail(iid, where(f), Finding(R.rule, f["file"], f["q"], "zero", "zero is no longer encoded as the transparent handle 0", f["line"]))
    gh = Graph(P.find(M + "terminal::getHandle")[0])
    bret = [n.ev["text"] for n in gh.nodes if n.kind == "ret" and "t_boolean" in n.ev.get("refs", [])]
    bdec = [n.ev["rhs"] for n in gd.nodes if n.kind == "store" and n.ev["member"].endswith("::t_boolean")]
    iid = "boolean: encoded %s, decoded %s" % (bret, bdec)
    if bret and all(re.sub(r"\s+", "", t).endswith("?-1:0") for t in bret) and bdec and all(re.sub(r"[\s()]", "", t) == "h!=0" for t in bdec):
        R.ok(iid, where(dec))
    else:
        R.fail(iid, where(dec), Finding(R.rule, dec["file"], dec["q"], "bool", "boolean terminals: encoder %s and decoder %s disagree (true = -1, false = 0)" % (bret, bdec), dec["line"]))
    R.require_floor(7, "terminal codec obligations")
    return R


def rule_header_type(P):
    """every accessor of the index-set cardinality header (the forest's unhashed extra header) uses one element type"""
    R = RuleResult("codec.header-type", "the index-set cardinality kept in a node's unhashed header is written, printed, read back and queried with one element type, and the query returns that type")
    sites = []   # (type, what, function record, line)
    for f in P.fns.values():
        if not f.get("cfg"):
            continue
        for b in f["cfg"]["blocks"]:
            for ev in b["ev"]:
                if ev["k"] == "call" and ev["q"] == M + "unpacked_node::setUHdata" and ev.get("argptr") and ev["args"][0].startswith("&"):   # typed store of a scalar; raw byte copies between buffers carry no type
                    sites.append((ev["argptr"][0], "setUHdata(&%s)" % ev["args"][0].lstrip("&"), f, ev["line"]))
                elif ev["k"] == "cast" and ev["of"] in (M + "unpacked_node::UHptr", M + "node_storage::getUnhashedHeaderOf", M + "simple_separated::getUnhashedHeaderOf"):
                    sites.append((ev["to"], "(%s*) %s()" % (ev["to"], ev["of"].split("::")[-1]), f, ev["line"]))
                elif ev["k"] == "store" and ev["member"] == M + "forest::unhashed_bytes" and "sizeof" in ev["rhs"]:
                    m = re.search(r"sizeof\s*\(\s*([^)]+?)\s*\)", ev["rhs"])
                    if m:
                        sites.append((m.group(1), "unhashed_bytes = sizeof(%s)" % m.group(1), f, ev["line"]))
    q = P.find(M + "forest::getIndexSetCardinality")
    for f in q:
        sites.append((f["rettype"], "return type of getIndexSetCardinality", f, f["line"]))
    seen = set()
    uniq = []
    for s in sites:
        k = (s[1], s[2]["q"], s[2]["file"])
        if k not in seen:
            seen.add(k)
            uniq.append(s)
    if len(uniq) < 5:
        raise AnalysisBroken("codec.header-type: expected the writer (mdd2index), readHeaderInfo, show/writeHeaderInfo, the size declaration and the query; found %d sites" % len(uniq))
    from collections import Counter
    cnt = Counter(t for t, *_ in uniq)
    major = cnt.most_common(1)[0][0]
    # the writer defines the truth: the type stored by mdd2index
    wr = [t for t, what, f, _ in uniq if "mdd2index" in f["q"]]
    truth = wr[0] if wr else major
    for t, what, f, line in sorted(uniq, key=lambda s: (s[2]["file"], s[3])):
        R.functions.add(f["inst"])
        iid = "%s: %s" % (f["q"].replace(M, ""), what)
        if t == truth:
            R.ok(iid, where(f, line))
        else:
            R.fail(iid, where(f, line), Finding(R.rule, f["file"], f["q"], "return-type" if "return" in what else ("cast" if what.startswith("(") else what.split("(")[0].strip()),
                   "the cardinality header is stored as `%s` (mdd2index) but accessed here as `%s`: counts that do not fit are truncated / misread" % (truth, t), line))
    R.require_floor(5, "accessors of the cardinality header")
    return R


def rule_header_written(P):
    """an index-set forest keeps each node's member count in the node's unhashed header, outside the hash and outside the children.  createReducedNode
    stores whatever the unpacked node's header buffer holds — a recycled buffer if nobody wrote it.  So in every operation whose constructor requires
    an INDEX_SET result, each path from the creation of a result node to its createReducedNode passes U->setUHdata(&count); and the exchange reader /
    writer of a node pass through the forest's header hooks.  Seed C15c added a second, faster construction path that forgot the header"""
    R = RuleResult("codec.header-written", "in every operation class whose constructor checks the result labeling to be INDEX_SET: no path from `U = unpacked_node::newWritable(resF, …)` to `resF->createReducedNode(U, …)` avoids `U->setUHdata(&c)`, c of the header's element type; unpacked_node::read / write call readHeaderInfo / writeHeaderInfo")
    classes = set()
    for f in P.fns.values():
        if not f.get("cfg") or not f.get("cls") or base_name(f["q"]).split("::")[-1] != base_name(f["cls"]).split("::")[-1]:
            continue
        for b in f["cfg"]["blocks"]:
            for e in b["ev"]:
                if e["k"] == "call" and e["q"].endswith("::checkLabelings") and e["args"] and "INDEX_SET" in e["args"][-1]:
                    classes.add(f["cls"])
    if not classes:
        raise AnalysisBroken("codec.header-written: no operation class requires an INDEX_SET result any more (expected mdd2index_operation)")
    n = 0
    seen = set()
    for f in sorted(P.fns.values(), key=lambda f: (f["file"], f["line"], f["inst"])):
        if not f.get("cfg") or f.get("cls") not in classes or (f["file"], f["line"]) in seen:
            continue
        seen.add((f["file"], f["line"]))
        g = Graph(f)
        made = {}
        for k in g.nodes:
            if k.kind == "ldef" and re.match(r"(MEDDLY::)?unpacked_node::(newWritable|New|newFull|newSparse)\((this->)?resF\b", re.sub(r"\s+", "", k.ev.get("rhs") or "")):
                made.setdefault(k.ev["var"], []).append(k)
        for k in g.nodes:
            if k.kind != "call" or not k.ev["q"].endswith("::createReducedNode") or re.sub(r"\s+|this->", "", k.ev.get("recv") or "") != "resF":
                continue
            U = re.sub(r"\s+", "", k.ev["args"][0])
            n += 1
            R.functions.add(f["inst"])
            iid = "%s: header of `%s` written before createReducedNode" % (base_name(f["q"]).replace(M, ""), U)
            if U not in made:
                R.fail(iid, where(f, k.line), Finding(R.rule, f["file"], base_name(f["q"]), "reduce:" + U, "the node handed to resF->createReducedNode is not one created here by unpacked_node::newWritable(resF, …): its cardinality header cannot be followed", k.line))
                continue
            bad = None
            for c in made[U]:
                R.paths += 1
                pth = g.path(c.id, lambda x, k=k: x.id == k.id, avoid=lambda x, U=U: x.kind == "call" and x.ev["q"] == M + "unpacked_node::setUHdata" and re.sub(r"\s+", "", x.ev.get("recv") or "") == U and x.ev["args"] and x.ev["args"][0].startswith("&"))
                if pth:
                    bad = (c, pth)
                    break
            if bad:
                R.fail(iid, where(f, k.line), Finding(R.rule, f["file"], base_name(f["q"]), "reduce:" + U,
                       "index-set node `%s` created at line %s reaches createReducedNode without %s->setUHdata(&count): the stored cardinality is whatever the recycled buffer held" % (U, bad[0].line, U), k.line, path=show_path(bad[1])))
            else:
                R.ok(iid, where(f, k.line))
    for fn, hook in (("unpacked_node::read", "forest::readHeaderInfo"), ("unpacked_node::write", "forest::writeHeaderInfo")):
        for f in P.find(M + fn):
            if not f.get("cfg"):
                continue
            n += 1
            R.functions.add(f["inst"])
            has = any(e["k"] == "call" and e["q"] == M + hook for b in f["cfg"]["blocks"] for e in b["ev"])
            iid = "%s calls %s" % (fn, hook)
            if has:
                R.ok(iid, where(f))
            else:
                R.fail(iid, where(f), Finding(R.rule, f["file"], f["q"], "hook:" + hook.split("::")[-1], "the exchange %s of a node no longer passes through %s: index-set cardinalities are not carried across a file" % (fn.split("::")[-1], hook), f["line"]))
            break
    R.require_floor(3, "index-set node constructions and exchange hooks")
    return R


def rule_format_switch(P):
    """real terminals are written with put(x, 0, 10, 'e'): scientific notation keeps the leading digits of a small value, fixed notation prints
    0.0000000000.  FILE_output and ostream_output each map the format letter through a switch; every case must end in exactly one notation and the two
    siblings must agree.  Seed C14d removed the `break` after case 'e' of the stream writer: 'e' then falls through to `fixed`"""
    R = RuleResult("codec.format-switch", "FILE_output::put(double,…) and ostream_output::put(double,…): each case of the format-letter switch reaches exactly one notation ('e' scientific, 'f' fixed, default general) and both writers have the same cases")
    want = {"e": "scientific", "f": "fixed", "default": "general"}
    seen_labels = {}
    for cls in ("FILE_output", "ostream_output"):
        fs = [f for f in P.find(M + cls + "::put") if f.get("cfg") and "double" in f["sig"]]
        if not fs:
            raise AnalysisBroken("codec.format-switch: %s::put(double, …) not found" % cls)
        f = fs[0]
        g = Graph(f)
        R.functions.add(f["inst"])
        sw = switch_cases(g)
        if not sw:
            raise AnalysisBroken("codec.format-switch: %s::put(double, …) has no format switch any more" % cls)
        cases = sw[0]
        seen_labels[cls] = set()
        for lab, ids in sorted(cases.items()):
            key = _char(lab) or ("default" if "default" in lab else lab)
            seen_labels[cls].add(key)
            kinds = set()
            for i in ids:
                k = g.nodes[i]
                if k.kind != "call":
                    continue
                t = " ".join(k.ev.get("args") or [])
                if k.ev["q"].endswith("::setf") or "setf" in k.ev["q"]:
                    if "scientific" in t:
                        kinds.add("scientific")
                    elif "fixed" in t:
                        kinds.add("fixed")
                    elif "fmtflags(0)" in re.sub(r"\s+", "", t):
                        kinds.add("general")
                elif k.ev["q"].endswith("fprintf"):
                    m = re.search(r'%\*\.\*([efg])', t)
                    if m:
                        kinds.add({"e": "scientific", "f": "fixed", "g": "general"}[m.group(1)])
            R.paths += 1
            iid = "%s::put: case %s selects %s" % (cls, key, want.get(key, "?"))
            if key in want and kinds == {want[key]}:
                R.ok(iid, where(f))
            else:
                R.fail(iid, where(f), Finding(R.rule, f["file"], f["q"], "format:" + key, "case %s of the format switch reaches %s, expected exactly {%s}: a real terminal written through this writer is printed in another notation than the reader and the sibling writer assume" % (key, sorted(kinds) or "no notation", want.get(key, "?")), f["line"]))
    R.paths += 1
    if seen_labels["FILE_output"] == seen_labels["ostream_output"]:
        R.ok("both writers switch over the same format letters", "src/io.cc")
    else:
        f = P.find(M + "ostream_output::put")[0]
        R.fail("both writers switch over the same format letters", "src/io.cc", Finding(R.rule, f["file"], f["q"], "format-letters", "FILE_output handles %s, ostream_output handles %s" % (sorted(seen_labels["FILE_output"]), sorted(seen_labels["ostream_output"])), f["line"]))
    R.require_floor(7, "cases of the two format switches")
    return R


RULES = [rule_tokens, rule_terminal_io, rule_sections, rule_keywords, rule_code_chars, rule_domain_order, rule_format_switch]
