"""guard.orphan / guard.terminal-root (DESIGN §2.4): uses of an edge whose forest was destroyed,
and unpacking of possibly-terminal handles in the index-set lookup.

guard.orphan is decided by the C++ engine `msa --engine=orphan` (nullness dataflow of forest
pointers over every function of all units); this module turns its diagnostics into rule
instances and checks the class invariants the engine's accepted guards rest on."""
from cfg import Graph, qmatch, show_path
from rules_own import OWN_SCOPE_FILES
from core import Finding, RuleResult
from frontend import AnalysisBroken, where, base_name

M = "MEDDLY::"


def rule_orphan(ctx):
    R = RuleResult("guard.orphan", "a forest pointer obtained from getForestWithID()/getForest() (null once the forest is destroyed) is dereferenced only under a dominating null test, an atEnd/co-field test (iterator) or a node!=0 test (dd_edge)")
    raw = ctx.memo("engine.orphan", lambda: ctx.fe.run_engine("orphan"))
    seen = {}
    nfun = 0
    for u in sorted(raw):
        for f in raw[u]["functions"]:
            k = (f["inst"], f["sig"], f["file"], f["line"])
            if k in seen:
                continue
            seen[k] = f
            if f.get("gave_up"):
                raise AnalysisBroken("guard.orphan: state explosion in %s" % f["inst"])
            nfun += 1
            R.functions.add(f["inst"])
            R.paths += f["states"]
            fn = base_name(f["q"]) + f["sig"]
            bad = {}
            for d in f["diags"]:
                bad.setdefault((d["rule"], d["sink"]), []).append(d)
            n_ok = f["derefs"] + f["node_stores"] - sum(len(v) for v in bad.values())
            if n_ok > 0:
                R.ok("%s%s: %d guarded use(s) of forest pointers / iterator fields / node stores" % (f["inst"].replace(M, ""), f["sig"][:50], n_ok), "src/%s:%d" % (f["file"], f["line"]), uses=n_ok)
            for (rule, sink), ds in sorted(bad.items()):
                lines = sorted({d["line"] for d in ds})
                R.fail("%s%s: %s" % (f["inst"].replace(M, ""), f["sig"][:50], sink), "src/%s:%d" % (f["file"], lines[0]),
                       Finding(rule, f["file"], fn, sink, ds[0]["msg"] + (" (also at lines %s)" % ", ".join(map(str, lines[1:8])) if len(lines) > 1 else ""), lines[0], inst=f["inst"]))
    R.notes.append("%d functions with at least one forest-pointer dereference analysed in %d units" % (nfun, len(raw)))
    R.require_floor(300, "functions dereferencing forest pointers")
    return R


CO_FIELDS = ("M", "U_from", "U_to", "Z_from", "Z_to", "ev_from", "ev_to")


def rule_iterator_init(ctx):
    """the class invariant the engine's atEnd/co-field guards rest on: when init_with_forest is given a null
    forest it sets atEnd=true and leaves every co-allocated field null, allocating nothing"""
    P = ctx.program
    R = RuleResult("guard.orphan.iterator-init", "iterator::init_with_forest(nullptr) sets atEnd and nulls M/U_*/Z_*/ev_* without allocating; with a forest it allocates M")
    f = P.find(M + "dd_edge::iterator::init_with_forest")[0]
    g = Graph(f)
    R.functions.add(f["inst"])
    tests = [n for n in g.nodes if n.kind == "branch" and n.cond and n.cond.get("op") == "truth" and n.cond["l"]["refs"] and set(n.cond["l"]["refs"]) <= {"F", "_F", "this"} and len(n.succ) == 2]
    if not tests:
        raise AnalysisBroken("guard.orphan.iterator-init: no null test of F in init_with_forest")
    t = tests[0]
    null_idx = 0 if t.cond.get("neg") else 1
    null_start = [s for s, i in t.succ if i == null_idx][0]
    live_start = [s for s, i in t.succ if i != null_idx][0]
    # null arm: atEnd = true on every path, every co-field nulled on every path, nothing allocated
    R.paths += 1
    p = g.path(null_start, lambda n: n.id == g.exit, avoid=lambda n: n.kind == "store" and n.ev["member"].endswith("iterator::atEnd") and n.ev["rhs"] == "true")
    first = g.nodes[null_start]
    if first.kind == "store" and first.ev["member"].endswith("iterator::atEnd") and first.ev["rhs"] == "true":
        p = None
    if p:
        R.fail("null arm sets atEnd", where(f, t.line), Finding(R.rule, f["file"], f["q"], "atEnd", "an iterator built without a forest is not marked atEnd", t.line, show_path(p)))
    else:
        R.ok("null arm sets atEnd", where(f, t.line))
    reach_null = g.reach([null_start])
    allocs = [g.nodes[i] for i in reach_null if g.nodes[i].kind == "new"]
    if allocs:
        R.fail("null arm allocates nothing", where(f, allocs[0].line), Finding(R.rule, f["file"], f["q"], "new", "the forest-less iterator allocates", allocs[0].line))
    else:
        R.ok("null arm allocates nothing", where(f, t.line))
    for cf in CO_FIELDS:
        st = lambda n, cf=cf: n.kind == "store" and n.ev["member"].endswith("iterator::" + cf) and "nullptr" in n.ev["rhs"]
        R.paths += 1
        start = g.nodes[null_start]
        p = None if st(start) else g.path(null_start, lambda n: n.id == g.exit, avoid=st)
        if p:
            R.fail("null arm nulls " + cf, where(f, t.line), Finding(R.rule, f["file"], f["q"], cf, "field %s is not nulled when the iterator has no forest (the %s-test guard would be unsound)" % (cf, cf), t.line, show_path(p)))
        else:
            R.ok("null arm nulls " + cf, where(f, t.line))
    R.paths += 1
    alloc_m = lambda n: n.kind == "store" and n.ev["member"].endswith("iterator::M") and n.ev.get("rhsnew") == "minterm"
    p = g.path(live_start, lambda n: n.id == g.exit, avoid=alloc_m)
    if p and not alloc_m(g.nodes[live_start]):
        R.fail("live arm allocates M", where(f), Finding(R.rule, f["file"], f["q"], "M", "with a forest, M is not allocated on some path", f["line"], show_path(p)))
    else:
        R.ok("live arm allocates M", where(f))
    R.require_floor(10, "iterator set-up obligations")
    return R


NONTERMINAL_TESTS = "isTerminalNode(p) [false arm], p > 0, p >= 1 [true arm], p <= 0, p < 1 [false arm]"


def _nonterminal_arm(cond, var):
    """index of the successor on which `var` is known to be a non-terminal handle, or None"""
    neg = bool(cond.get("neg"))
    if any(c.endswith("::isTerminalNode") for c in cond["calls"]) and var in cond["refs"] and cond.get("op") == "truth":
        return 0 if neg else 1
    op = cond.get("op")
    if op in ("==", "!=") and any(c.endswith("::getNodeLevel") for c in cond["calls"]) and var in cond["refs"]:
        # the node's level equals a loop's level counter (which runs over 1..N): a terminal has level 0, so the agree edge is a non-terminal edge
        import re
        if re.search(r"getNodeLevel\(%s\)" % re.escape(var), re.sub(r"\s+", "", cond["text"])):
            return (0 if op == "==" else 1)
    if op in (">", ">=", "<", "<="):
        l, r = cond["l"], cond["r"]
        flip = {">": "<", "<": ">", ">=": "<=", "<=": ">="}
        if var in r["refs"] and "const" in l and var not in l["refs"]:
            l, r, op = r, l, flip[op]
        if var in l["refs"] and len(l["refs"]) == 1 and "const" in r:
            c = r["const"]
            if (op == ">" and c == 0) or (op == ">=" and c == 1):
                return 1 if neg else 0
            if (op == "<=" and c == 0) or (op == "<" and c == 1):
                return 0 if neg else 1
    return None


def rule_terminal_root(ctx):
    """index-set lookup must fail, not unpack a terminal: in dd_edge::getElemInt/getElemLong every path from a
    definition of the handle to unpacked_node::initFromNode(handle) crosses the non-terminal arm of a test of it"""
    P = ctx.program
    R = RuleResult("guard.terminal-root", "in the index-set lookup, a handle reaches unpacked_node::initFromNode only across the non-terminal arm of a test of that handle (%s)" % NONTERMINAL_TESTS)
    for q in (M + "dd_edge::getElemInt", M + "dd_edge::getElemLong"):
        for f in P.find(q):
            g = Graph(f)
            R.functions.add(f["inst"])
            sinks = [n for n in g.nodes if n.kind == "call" and (qmatch(n.ev["q"], "unpacked_node::initFromNode") or qmatch(n.ev["q"], "unpacked_node::newFromNode"))]
            if not sinks:
                raise AnalysisBroken("guard.terminal-root: %s no longer unpacks a node" % q)
            for s in sinks:
                args = [a for a in s.ev["args"] if a.isidentifier()]
                var = args[-1] if args else None
                if var is None:
                    raise AnalysisBroken("guard.terminal-root: cannot identify the handle argument of %s at line %s" % (s.ev["q"], s.line))
                defs = [n for n in g.nodes if (n.kind == "ldef" and n.ev["var"] == var) or (n.kind == "call" and var in n.ev.get("defs", []))]
                if not defs:
                    raise AnalysisBroken("guard.terminal-root: no definition of '%s' found in %s" % (var, q))
                guard_edges = set()
                for n in g.nodes:
                    if n.kind == "branch" and n.cond and len(n.succ) == 2:
                        a = _nonterminal_arm(n.cond, var)
                        if a is not None:
                            guard_edges.add((n.id, a))
                bad = None
                for d in defs:
                    R.paths += 1
                    starts = [x for x, _ in d.succ]
                    for st in starts:
                        p = g.path(st, lambda n: n.id == s.id, avoid=lambda n: n in defs, avoid_edge=lambda n, i: (n.id, i) in guard_edges) if st != s.id else [g.nodes[st]]
                        if p:
                            bad = (d, p)
                            break
                    if bad:
                        break
                iid = "%s: %s(%s) only for a non-terminal handle" % (q.replace(M, ""), s.ev["q"].split("::")[-1], var)
                if bad:
                    R.fail(iid, where(f, s.line), Finding(R.rule, f["file"], q, "initFromNode(%s)" % var,
                           "a possibly-terminal handle (e.g. the root of the index set of the empty set, or a child below a short path) is unpacked: lookup must fail instead (definition at line %s)" % bad[0].line,
                           s.line, show_path([bad[0]] + bad[1])))
                else:
                    R.ok(iid, where(f, s.line), guards=len(guard_edges))
    R.require_floor(2, "index lookup routines")
    return R


LONG_INDEX_FUNCTIONS = (M + "dd_edge::getElemLong", M + "mdd2index_operation::_compute", M + "mdd2index_operation::compute")


def rule_index_width(ctx):
    """index sets with long (64-bit) offsets: the long lookup / conversion code keeps offsets and cardinalities in long"""
    P = ctx.program
    R = RuleResult("guard.index-width", "in the 64-bit index-set code (dd_edge::getElemLong, mdd2index) no local integer is initialised from a wider integer: offsets and cardinalities above 2^31 are not narrowed on the way")
    for q in LONG_INDEX_FUNCTIONS:
        for f in P.find(q):
            g = Graph(f)
            R.functions.add(f["inst"])
            defs = [n for n in g.nodes if n.kind == "ldef" and n.ev.get("vtype")]
            bad = [n for n in defs if n.ev.get("narrow")]
            iid = "%s%s: %d integer local(s), none narrowing" % (q.replace(M, ""), f["sig"][:30], len(defs))
            if not bad:
                R.ok(iid, where(f), locals=len(defs))
            for n in bad:
                R.fail("%s: %s" % (q.replace(M, ""), n.ev["var"]), where(f, n.line), Finding(R.rule, f["file"], q, "narrow:" + n.ev["var"],
                       "`%s %s = %s` narrows a %s value: offsets of index sets with 2^31 or more members are truncated, lookups fail or return the wrong member" % (
                           n.ev["vtype"], n.ev["var"], n.ev["rhs"][:60], n.ev.get("itype", "wider")), n.line))
    R.require_floor(3, "64-bit index-set functions")
    return R


RULES_ORPHAN = [rule_orphan, rule_iterator_init]


def rule_level_sync(ctx):
    """index-set lookup walks the levels N..1 with a counter while following child pointers: a node is unpacked *as the node of level k* only after
    its level was compared with k (an index set skips the level of a variable that has a single value)"""
    import re
    P = ctx.program
    R = RuleResult("guard.level-sync", "in dd_edge::getElemInt / getElemLong a handle reaches unpacked_node::initFromNode only on the levels-agree arm of a test comparing getNodeLevel(handle) with the loop's level counter")
    for q in (M + "dd_edge::getElemInt", M + "dd_edge::getElemLong"):
        for f in P.find(q):
            g = Graph(f)
            R.functions.add(f["inst"])
            sinks = [n for n in g.nodes if n.kind == "call" and qmatch(n.ev["q"], "unpacked_node::initFromNode")]
            if not sinks:
                raise AnalysisBroken("guard.level-sync: %s no longer unpacks a node" % q)
            for s_ in sinks:
                var = [a for a in s_.ev["args"] if a.isidentifier()][-1]
                R.paths += 1
                agree = set()
                for b in g.nodes:
                    if b.kind != "branch" or not b.cond or len(b.succ) != 2 or b.cond.get("op") not in ("==", "!="):
                        continue
                    t = re.sub(r"\s+", "", b.cond["text"])
                    if not re.search(r"getNodeLevel\(%s\)" % re.escape(var), t):
                        continue
                    eq_edge = 0 if b.cond["op"] == "==" else 1
                    agree.add((b.id, eq_edge))
                iid = "%s: initFromNode(%s) only after getNodeLevel(%s) was found equal to the level counter" % (q.replace(M, ""), var, var)
                # no path to the unpacking may avoid every levels-agree edge
                p_ = g.path(g.entry, lambda n, s_=s_: n.id == s_.id, avoid_edge=lambda n, i: (n.id, i) in agree)
                if agree and p_ is None:
                    R.ok(iid, where(f, s_.line))
                else:
                    R.fail(iid, where(f, s_.line), Finding(R.rule, f["file"], q, "initFromNode(%s)" % var,
                           "the walk unpacks `%s` as the node of the current level without comparing its level with the counter: when the index set skips a level (a variable with a single value) every lookup goes out of step and fails" % var, s_.line))
            # the empty set has no member with any index: from the edge on which the handle is the empty terminal, only `return false` is reachable
            R.paths += 1
            var = [a for a in sinks[0].ev["args"] if a.isidentifier()][-1]
            empt = [b for b in g.nodes if b.kind == "branch" and b.cond and len(b.succ) == 2 and
                    re.sub(r"\s+", "", b.cond["text"]).lstrip("!") in ("OMEGA_INFINITY==%s" % var, "%s==OMEGA_INFINITY" % var, "0==%s" % var, "%s==0" % var)]
            iid = "%s: the empty index set answers every lookup with false" % q.replace(M, "")
            if not empt:
                raise AnalysisBroken("guard.level-sync: %s has no test of `%s` against the empty terminal (OMEGA_INFINITY)" % (q, var))
            bad = None
            for b in empt:
                te = 1 if b.cond.get("neg") else 0
                st = [x for x, i in b.succ if i == te][0]
                yes = lambda n: n.kind == "ret" and re.sub(r"\s+", "", n.ev.get("text", "")) not in ("false", "0")
                if yes(g.nodes[st]) or g.path(st, yes) is not None:
                    bad = b
            if bad is None:
                R.ok(iid, where(f, empt[0].line))
            else:
                R.fail(iid, where(f, bad.line), Finding(R.rule, f["file"], q, "empty-set", "after `%s` (the set is empty) the lookup can still return something other than false: index 0 of the empty set is reported as found" % bad.cond["text"], bad.line))
    R.require_floor(4, "index-lookup walks")
    return R


def rule_event_level(ctx):
    """saturation over a partitioned relation files each relation under the level of its top variable and, when saturating a node of level k, unpacks the
    relations filed under k *as nodes of level k*.  The union of the relations filed under k (by levels), or what is left after splitting, may have
    dropped below k: the choice between initFromNode and the redundant expansion must compare the relation's level with k, not merely test its sign"""
    import re
    P = ctx.program
    R = RuleResult("guard.event-level", "in the saturateHelper functions of saturation by events / by levels, an event relation is unpacked with initFromNode only under a condition that compares its level with the level being saturated; every other case takes the redundant expansion")
    n = 0
    seen = set()
    for f in sorted(P.fns.values(), key=lambda f: (f["file"], f["line"], f["inst"])):
        if not f.get("cfg") or f["file"] not in ("operations/sat_pregen.cc", "operations/sat_otf.cc", "operations/sat_hyb.cc") or not f["q"].endswith("::saturateHelper") or (f["file"], f["line"]) in seen:
            continue
        seen.add((f["file"], f["line"]))
        g = Graph(f)
        cur = {re.sub(r"\s+", "", x) for x in ("nb.getLevel()", "level")}
        cur |= {k.ev["var"] for k in g.nodes if k.kind == "ldef" and re.sub(r"\s+", "", k.ev.get("rhs", "") or "") == "nb.getLevel()"}
        for k in g.nodes:
            if k.kind != "call" or not qmatch(k.ev["q"], "unpacked_node::initFromNode") or not re.search(r"getNode\(\)", (k.ev.get("args") or [""])[-1]) or "[" not in str(k.ev.get("recv")):
                continue
            n += 1
            R.functions.add(f["inst"])
            R.paths += 1
            conds = []
            for c in g.nodes:
                if c.kind != "branch" or not c.cond or len(c.succ) != 2:
                    continue
                arms = [i for s_, i in c.succ if k.id in g.reach([s_], avoid=lambda x, c=c: x.id == c.id)]
                if len(arms) == 1:
                    conds.append(re.sub(r"\s+", "", c.cond["text"]))
            iid = "%s: %s->initFromNode(%s)" % (base_name(f["q"]).replace(M, ""), re.sub(r"\s+", "", str(k.ev.get("recv"))), k.ev["args"][-1])
            if any(re.search(r"[Ll]evel", t) and any(re.search(r"(?<![\w.])%s(?![\w(])" % re.escape(c_), t) or c_ in t for c_ in cur if c_) and re.search(r"==|!=|<|>", t) and
                   len(re.findall(r"[Ll]evel", t)) >= 2 for t in conds):
                R.ok(iid, where(f, k.line))
            else:
                R.fail(iid, where(f, k.line), Finding(R.rule, f["file"], base_name(f["q"]), "initFromNode(%s)" % re.sub(r"\s+", "", k.ev["args"][-1]),
                       "the event relation is unpacked as a node of the level being saturated under %s, which does not compare its level with that level: when the union of the relations filed under this level (or the remainder after splitting) no longer depends on this level's variable, its rows are read from a lower node" % (conds or "no condition"), k.line))
    if n < 3:
        raise AnalysisBroken("guard.event-level: expected ≥3 event unpack sites in the saturateHelper functions, found %d" % n)
    R.require_floor(3, "event unpack sites")
    return R


def rule_terminal_operands(ctx):
    """a recursive binary operation that unpacks its operands must have a terminal case that looks at *both* operands being terminals: the single-
    operand cases ("A is the constant TRUE and the forest is fully reduced", …) and the same-node shortcut (A==B in the same forest) leave two
    terminals of two different forests to fall through to the unpacking.  inter_mt::_compute had only those (defect D20: identity ∧ identity across
    two identity-reduced forests unpacked the terminal).  Decided structurally: some `return` is governed by the terminal tests of two different
    handle parameters; what that case returns, and whether a guard inside it (level 0, not forced by levels) lets some combination through to a
    level-0 unpacking, is value reasoning and is not decided"""
    import re
    P = ctx.program
    R = RuleResult("guard.terminal-operands", "every recursive operation that tests two or more of its node-handle parameters for terminal-ness and unpacks them has a return governed by the terminal tests of two different parameters (a both-terminal case)")
    n = 0
    seen = set()
    for f in sorted(P.fns.values(), key=lambda f: (f["file"], f["line"], f["inst"])):
        if not f.get("cfg") or not f["file"].startswith("operations/") or (f["file"], f["line"]) in seen:
            continue
        if f["file"] not in OWN_SCOPE_FILES and f["file"] != "operations/sat_pregen.cc":
            continue      # legacy-interface files outside the armed scope: their terminal conventions were not read
        hs = [p_["name"] for p_ in f.get("params", []) if p_.get("handle")]
        if len(hs) < 2:
            continue
        g = Graph(f)
        unpacked = {re.sub(r"\s+", "", a) for k in g.nodes if k.kind == "call" and (qmatch(k.ev["q"], "unpacked_node::initFromNode") or qmatch(k.ev["q"], "unpacked_node::newFromNode"))
                    for a in (k.ev.get("args") or []) if re.sub(r"\s+", "", a) in hs}
        tests = {}      # branch id -> (handle, edge on which it IS a terminal)
        for b in g.nodes:
            if b.kind != "branch" or not b.cond or len(b.succ) != 2:
                continue
            m = re.fullmatch(r"!?[\w>.-]+->isTerminalNode\((\w+)\)", re.sub(r"\s+", "", b.cond["text"]))
            if m and m.group(1) in hs:
                tests[b.id] = (m.group(1), 1 if b.cond.get("neg") else 0)
        tested = {h for h, _ in tests.values()}
        if len(tested & unpacked) < 2:
            continue
        seen.add((f["file"], f["line"]))
        n += 1
        R.functions.add(f["inst"])
        R.paths += 1
        both = False
        for k in g.nodes:
            if k.kind != "ret":
                continue
            gov = set()
            for bid, (h, te) in tests.items():
                b = g.nodes[bid]
                arms = [i for s_, i in b.succ if k.id in g.reach([s_], avoid=lambda x, bid=bid: x.id == bid)]
                if arms == [te]:
                    gov.add(h)
            if len(gov) >= 2:
                both = True
                break
        iid = "%s: has a case for %s all being terminals" % (f["inst"].replace(M, "")[:70], sorted(tested & unpacked))
        if both:
            R.ok(iid, where(f))
        else:
            R.fail(iid, where(f), Finding(R.rule, f["file"], base_name(f["q"]), "both-terminal", "no return is governed by the terminal tests of two operands: two terminals of different forests (identity patterns of two identity-reduced forests) fall through the single-operand cases and the same-node shortcut, and a terminal handle is unpacked", f["line"]))
    if n < 7:
        raise AnalysisBroken("guard.terminal-operands: only %d recursive operations with two tested operands found, expected ≥7" % n)
    R.require_floor(7, "recursive operations with terminal cases")
    return R
