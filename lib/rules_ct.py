"""ct — compute-table protocol rules that are visible in the shape of ct_styles.cc, node_headers
and the entry-type classes (DESIGN §2.3).  Facts-based part: recycle gate, dead-before-return,
node-item walkers (cache-count symmetry).  Schema/use agreement lives in the C++ `ct` engine."""
import re

from cfg import Graph, qmatch, show_path
from core import Finding, RuleResult
from frontend import AnalysisBroken, where, base_name

M = "MEDDLY::"


def _branches(g, pred):
    return [n for n in g.nodes if n.kind == "branch" and n.cond and len(n.succ) == 2 and pred(n.cond)]


def _arm(n, idx):
    xs = [s for s, i in n.succ if i == idx]
    return xs[0] if xs else None


def _true_idx(cond):
    return 1 if cond.get("neg") else 0


def _hp(f):
    """name of the function's node_handle parameter (whatever it is called)"""
    for p in f.get("params", []):
        if p.get("handle"):
            return p["name"]
    raise AnalysisBroken("%s has no node_handle parameter" % f["q"])


def _zero_test(cond, must_refs):
    """(index of the arm on which the tested expression == 0) for `0 == X` / `X == 0` / `!X` tests whose X mentions all must_refs"""
    op = cond.get("op")
    neg = bool(cond.get("neg"))
    if op in ("==", "!="):
        l, r = cond["l"], cond["r"]
        q = r if l.get("const") == 0 else (l if r.get("const") == 0 else None)
        if q is None or not all(m in q["refs"] for m in must_refs):
            return None
        return 0 if ((op == "==") != neg) else 1
    return None


def rule_recycle_gate(P):
    R = RuleResult("ct.recycle-gate", "a node handle is recycled (and may be handed out again) only on the zero arm of a test of its cache count / in-cache bit; nodes are deleted from lastUncache only when unreachable; the last-unlink/last-uncache hooks fire only when the counter hit zero")
    # (a) lastUnlink: recycle only across `0 == cache_counts->get(p)` or `0 == is_in_cache->get(p)`
    f = P.find(M + "node_headers::lastUnlink")[0]
    g = Graph(f)
    R.functions.add(f["inst"])
    guards = set()
    for n in _branches(g, lambda c: True):
        for refs in (["cache_counts", _hp(f)], ["is_in_cache", _hp(f)]):
            z = _zero_test(n.cond, refs)
            if z is not None:
                guards.add((n.id, z))
    for c in g.calls("node_headers::recycleNodeHandle"):
        R.paths += 1
        p = g.path(g.entry, lambda n: n.id == c.id, avoid_edge=lambda n, i: (n.id, i) in guards)
        iid = "lastUnlink: recycleNodeHandle only when the cache count / in-cache bit of p is zero"
        if guards and not p:
            R.ok(iid, where(f, c.line), guards=len(guards))
        else:
            R.fail(iid, where(f, c.line), Finding(R.rule, f["file"], f["q"], "recycleNodeHandle", "a handle still mentioned by compute-table entries can be recycled at its last unlink", c.line, show_path(p) if p else None))
    if not g.calls("node_headers::recycleNodeHandle"):
        raise AnalysisBroken("ct.recycle-gate: lastUnlink no longer recycles handles")
    # every path of lastUnlink that keeps the handle still deletes the node under the pessimistic policy: not a C07 clause, not armed

    # (b) lastUncache: recycle across isDeleted(p) [true] or the incoming==0 / not-reachable arm; deleteNode only across the latter
    f = P.find(M + "node_headers::lastUncache")[0]
    g = Graph(f)
    R.functions.add(f["inst"])
    dead = set()
    unreach = set()
    for n in _branches(g, lambda c: True):
        if any(c.endswith("node_headers::isDeleted") for c in n.cond["calls"]) and _hp(f) in n.cond["refs"] and n.cond.get("op") == "truth":
            dead.add((n.id, _true_idx(n.cond)))
        for refs in (["incoming_counts", _hp(f)], ["is_reachable", _hp(f)]):
            z = _zero_test(n.cond, refs)
            if z is not None:
                unreach.add((n.id, z))
    for c in g.calls("node_headers::recycleNodeHandle"):
        R.paths += 1
        p = g.path(g.entry, lambda n: n.id == c.id, avoid_edge=lambda n, i: (n.id, i) in dead or (n.id, i) in unreach)
        iid = "lastUncache: recycleNodeHandle@%d only for a deleted or unreachable node" % len([x for x in g.calls("node_headers::recycleNodeHandle") if x.id <= c.id])
        if (dead or unreach) and not p:
            R.ok(iid, where(f, c.line))
        else:
            R.fail(iid, where(f, c.line), Finding(R.rule, f["file"], f["q"], "recycleNodeHandle", "a live, reachable node's handle can be recycled when its cache count drops to zero", c.line, show_path(p) if p else None))
    for c in g.calls("forest::deleteNode"):
        R.paths += 1
        p = g.path(g.entry, lambda n: n.id == c.id, avoid_edge=lambda n, i: (n.id, i) in unreach)
        iid = "lastUncache: deleteNode only for an unreachable node"
        if unreach and not p:
            R.ok(iid, where(f, c.line))
        else:
            R.fail(iid, where(f, c.line), Finding(R.rule, f["file"], f["q"], "deleteNode", "a node that is still referenced can be deleted when its cache count drops to zero", c.line, show_path(p) if p else None))

    # (c) recycleNodeHandle: the tail collapse discards handle a_last only if *that* handle is deleted and uncached
    f = P.find(M + "node_headers::recycleNodeHandle")[0]
    g = Graph(f)
    R.functions.add(f["inst"])
    decs = [n for n in g.nodes if n.kind == "store" and n.ev["member"] == M + "node_headers::a_last" and n.ev["op"] == "incdec"]
    if not decs:
        raise AnalysisBroken("ct.recycle-gate: no `a_last--` in recycleNodeHandle (tail collapse)")
    cc = set()
    dl = set()
    for n in _branches(g, lambda c: True):
        if any(c.endswith("node_headers::getNodeCacheCount") for c in n.cond["calls"]):
            z = _zero_test(n.cond, ["a_last"])
            if z is not None:
                cc.add((n.id, z))
        if any(c.endswith("node_headers::isDeleted") for c in n.cond["calls"]) and "a_last" in n.cond["refs"] and n.cond.get("op") == "truth":
            dl.add((n.id, _true_idx(n.cond)))
    for d in decs:
        for name, edges, why in (("its cache count is zero", cc, "a deleted handle still mentioned by compute-table entries is returned to the unallocated pile and handed out again: stale entries then match the new node"),
                                 ("it is deleted", dl, "a live handle is returned to the unallocated pile")):
            R.paths += 1
            # every way of reaching the decrement (first time, or around the loop) crosses the guard edge for the current a_last
            starts = [g.entry] + [x for x, _ in d.succ]
            p = None
            for st in starts:
                p = p or g.path(st, lambda n: n.id == d.id, avoid_edge=lambda n, i: (n.id, i) in edges)
            iid = "recycleNodeHandle: a_last is discarded only if %s" % name
            if edges and not p:
                R.ok(iid, where(f, d.line))
            else:
                R.fail(iid, where(f, d.line), Finding(R.rule, f["file"], f["q"], "a_last--:" + name.split()[1], why + " (the test must be on a_last itself)", d.line, show_path(p) if p else None))

    # (d) the hooks fire only when the counter reached zero
    for fn, hook, ctr in (("node_headers::uncacheNode", "node_headers::lastUncache", "cache_counts"), ("node_headers::unlinkNode", "node_headers::lastUnlink", "incoming_counts")):
        for f in P.find(M + fn):
            g = Graph(f)
            R.functions.add(f["inst"])
            hooks = g.calls(hook)
            if not hooks:
                continue
            pos = set()
            for n in _branches(g, lambda c: True):
                if any(c.endswith("isPositiveAfterDecrement") for c in n.cond["calls"]) and ctr in n.cond["refs"] and _hp(f) in n.cond["refs"] and n.cond.get("op") == "truth":
                    pos.add((n.id, 1 - _true_idx(n.cond)))   # the arm where the count is NOT positive
            R.paths += 1
            p = g.path(g.entry, lambda n: n in hooks, avoid_edge=lambda n, i: (n.id, i) in pos)
            iid = "%s: %s only when %s dropped to zero" % (fn.split("::")[-1], hook.split("::")[-1], ctr)
            if pos and not p:
                R.ok(iid, where(f, hooks[0].line))
            else:
                R.fail(iid, where(f, hooks[0].line), Finding(R.rule, f["file"], f["q"], hook, "the last-%s hook can run while the counter is still positive" % ("uncache" if "cache" in ctr else "unlink"), hooks[0].line, show_path(p) if p else None))
    R.require_floor(8, "recycle/delete gate obligations")
    return R


# what the true arm of `item.hasNodeType()` must do in each walker of a compute-table entry
NODE_ARM = {
    "addEntry": "ct_itemtype::cacheNode",
    "result2entry": "ct_itemtype::cacheNode",
    "deleteEntry": "ct_itemtype::uncacheNode",
    "isDead": "ct_itemtype::isDeadEntry",
    "isStale": "ct_itemtype::isStaleEntry",
}


def rule_node_items(P):
    R = RuleResult("ct.counts-symmetric", "in every instantiation of ct_tmpl, each NODE item met while adding an entry is cache-counted, each NODE item met while deleting one is un-counted (same number of sections), and the dead/stale scans consult every NODE item")
    per_inst = {}
    for f in sorted(P.fns.values(), key=lambda f: (f["inst"], f["sig"])):
        bn = base_name(f["q"])
        if not bn.startswith(M + "ct_tmpl::") or not f.get("cfg"):
            continue
        name = bn.split("::")[-1]
        if name not in NODE_ARM:
            continue
        if name in ("addEntry",) and "ct_entry_key" in f["sig"]:
            continue   # deprecated interface: the key object counts its own nodes (ct_entry_key::cacheNodes)
        g = Graph(f)
        arms = _branches(g, lambda c: any(x.endswith("ct_itemtype::hasNodeType") for x in c["calls"]) and c.get("op") == "truth")
        if not arms:
            continue
        R.functions.add(f["inst"])
        want = NODE_ARM[name]
        for k, n in enumerate(arms):
            R.paths += 1
            st = _arm(n, _true_idx(n.cond))
            hit = lambda m: m.kind == "call" and qmatch(m.ev["q"], want)
            p = None if hit(g.nodes[st]) else g.path(st, lambda m: m.id == g.exit or (m.kind == "branch" and m.id == n.id), avoid=hit)
            iid = "%s%s: NODE item arm #%d calls %s" % (f["inst"].replace(M, ""), f["sig"][:30], k + 1, want.split("::")[-1])
            if p:
                R.fail(iid, where(f, n.line), Finding(R.rule, f["file"], bn, "%s#%d" % (want.split("::")[-1], k + 1),
                       "a NODE item of a compute-table entry is walked without %s: cache counts and entries disagree / a dead or stale node is not noticed" % want.split("::")[-1], n.line, show_path(p), inst=f["inst"]))
            else:
                R.ok(iid, where(f, n.line))
        inst_cls = f["cls"]
        per_inst.setdefault(inst_cls, {}).setdefault(name, 0)
        per_inst[inst_cls][name] += len(arms)
    for cls, d in sorted(per_inst.items()):
        add = d.get("addEntry", 0) + d.get("result2entry", 0)
        dele = d.get("deleteEntry", 0)
        iid = "%s: sections counted on add (%d) = sections un-counted on delete (%d)" % (cls.replace(M, ""), add, dele)
        if add == dele and add > 0:
            R.ok(iid, "src/storage/ct_styles.cc")
        else:
            R.fail(iid, "src/storage/ct_styles.cc", Finding(R.rule, "storage/ct_styles.cc", M + "ct_tmpl::deleteEntry", "sections",
                   "entry sections whose nodes are cache-counted when added (%d) and un-counted when deleted (%d) differ" % (add, dele), None, inst=cls))
    R.require_floor(40, "NODE-item arms in the ct_tmpl walkers")
    return R


def rule_dead_before_return(P):
    R = RuleResult("ct.dead-before-return", "ct_tmpl::find returns a hit only after isDead() examined the entry's result, and only when it said the entry is alive; isDead reports true exactly from isDeadEntry")
    n_find = 0
    for f in sorted(P.fns.values(), key=lambda f: (f["inst"], f["sig"])):
        bn = base_name(f["q"])
        if bn != M + "ct_tmpl::find" or not f.get("cfg"):
            continue
        g = Graph(f)
        hits = [n for n in g.nodes if n.kind == "ret" and n.ev.get("text") == "true"]
        if not hits:
            continue
        n_find += 1
        R.functions.add(f["inst"])
        dead = [n for n in g.nodes if n.kind == "call" and base_name(n.ev["q"]).endswith("ct_tmpl::isDead")]
        R.paths += 2
        iid = "%s%s: a hit is returned only after isDead()" % (f["inst"].replace(M, ""), f["sig"][:50])
        # local bool flags of the function, whatever they are called: variables assigned the literals true / false somewhere
        flags = sorted({n.ev["var"] for n in g.nodes if n.kind == "ldef" and n.ev.get("rhs", "").strip() in ("true", "false")})
        # the variable that receives isDead()'s verdict
        verdict = sorted({n.ev["var"] for n in g.nodes if n.kind == "ldef" and "isDead" in n.ev.get("rhs", "")})
        p = g.path_flags(g.entry, lambda n: n in hits, flags, avoid=lambda n: n in dead)
        if dead and not p:
            R.ok(iid, where(f, hits[0].line))
        else:
            R.fail(iid, where(f, hits[0].line), Finding(R.rule, f["file"], bn + f["sig"], "return true", "a cached answer can be returned without the dead-entry scan of its result nodes", hits[0].line, show_path(p) if p else None, inst=f["inst"]))
        # … and only when isDead() said "alive": its result is stored in `remove`, and a hit needs the `!remove` arm
        rem = set()
        for n in _branches(g, lambda c: c.get("op") == "truth" and len(c["l"]["refs"]) == 1 and c["l"]["refs"][0] in verdict):
            rem.add((n.id, 1 - _true_idx(n.cond)))
        iid = "%s%s: a hit is returned only when the entry is not being removed" % (f["inst"].replace(M, ""), f["sig"][:50])
        bad = None
        stored = [n for n in g.nodes if n.kind == "ldef" and n.ev["var"] in verdict and "isDead" in n.ev["rhs"]]
        other_flags = [x for x in flags if x not in verdict]
        for d in stored:
            bad = bad or g.path_flags(d, lambda n: n in hits, other_flags, avoid=lambda n: n.kind == "ldef" and n.ev["var"] in verdict, avoid_edge=lambda n, i: (n.id, i) in rem)
        if rem and stored and len(stored) == len(dead) and not bad:
            R.ok(iid, where(f, hits[0].line))
        else:
            R.fail(iid, where(f, hits[0].line), Finding(R.rule, f["file"], bn + f["sig"], "return true/remove", "an entry found dead (remove == true) can still be returned as a hit", hits[0].line, show_path(bad) if bad else None, inst=f["inst"]))
    for f in sorted(P.fns.values(), key=lambda f: (f["inst"], f["sig"])):
        bn = base_name(f["q"])
        if bn != M + "ct_tmpl::isDead" or not f.get("cfg"):
            continue
        g = Graph(f)
        R.functions.add(f["inst"])
        tr = [n for n in g.nodes if n.kind == "ret" and n.ev.get("text") == "true"]
        de = set()
        for n in _branches(g, lambda c: any(x.endswith("ct_itemtype::isDeadEntry") for x in c["calls"]) and c.get("op") == "truth"):
            de.add((n.id, _true_idx(n.cond)))
        R.paths += 1
        iid = "%s%s: reports dead exactly on isDeadEntry" % (f["inst"].replace(M, ""), f["sig"][:60])
        p = g.path(g.entry, lambda n: n in tr, avoid_edge=lambda n, i: (n.id, i) in de)
        fa = [n for n in g.nodes if n.kind == "ret" and n.ev.get("text") == "false"]
        # on the dead arm nothing but `return true` may follow
        leak = None
        for (nid, idx) in de:
            st = _arm(g.nodes[nid], idx)
            leak = leak or g.path(st, lambda n: n in fa or n.id == g.exit, avoid=lambda n: n in tr) if g.nodes[st] not in tr else leak
        if tr and de and not p and not leak:
            R.ok(iid, where(f, tr[0].line))
        else:
            R.fail(iid, where(f), Finding(R.rule, f["file"], bn + f["sig"], "isDeadEntry", "the dead-entry scan does not report an entry whose result node is dead (or reports without consulting isDeadEntry)", f["line"], inst=f["inst"]))
    if n_find < 4:
        raise AnalysisBroken("ct.dead-before-return: expected find() in at least 4 ct_tmpl instantiations, saw %d" % n_find)
    R.require_floor(12, "find/isDead obligations")
    return R


def _corr_path(g, must_pass, sink, guard_edges):
    """witness path entry → must_pass → sink that crosses none of guard_edges, under a small amount of
    path sensitivity: local flags defined as conjunctions (`const bool f = !g && (a == b) && …`) are forked
    at their definition (true: the conjuncts hold; false), `if (f)` follows only the consistent arm, and
    `x == y` / `x != y` tests over plain variables are decided by the equalities gathered so far."""
    import re as _re
    from collections import deque

    def find(eqs, x):
        for _ in range(20):
            nx = eqs.get(x, x)
            if nx == x:
                return x
            x = nx
        return x

    def add_eq(eqs, dis, a, b):
        ra, rb = find(eqs, a), find(eqs, b)
        if ra == rb:
            return eqs, dis
        for (p, q) in dis:
            if {find(eqs, p), find(eqs, q)} == {ra, rb}:
                return None
        e = dict(eqs)
        e[max(ra, rb)] = min(ra, rb)
        return e, dis

    def add_dis(eqs, dis, a, b):
        if find(eqs, a) == find(eqs, b):
            return None
        return eqs, dis | {(a, b)}

    def key(n, seen, flags, eqs, dis):
        return (n, seen, tuple(sorted(flags.items())), tuple(sorted(eqs.items())), tuple(sorted(dis)))

    flagdefs = {}
    for n in g.nodes:
        if n.kind == "ldef" and n.ev.get("rhs") and not n.ev.get("ptr"):
            flagdefs.setdefault(n.ev["var"], []).append(n)
    flagdefs = {v: ns[0] for v, ns in flagdefs.items() if len(ns) == 1 and ("&&" in ns[0].ev["rhs"] or ns[0].ev["rhs"].lstrip().startswith("!")) and "||" not in ns[0].ev["rhs"]}

    start = (g.entry, False, {}, {}, frozenset())
    prev = {key(*start): None}
    dq = deque([start])
    while dq:
        st = dq.popleft()
        x, seen, flags, eqs, dis = st
        n = g.nodes[x]
        if n.id in must_pass:
            seen = True
        if seen and sink(n):
            out = []
            k = key(*st)
            while k is not None:
                out.append(g.nodes[k[0]])
                k = prev[k]
            return out[::-1]
        branches = [(flags, eqs, dis)]
        if n.kind == "ldef" and n.ev["var"] in flagdefs and flagdefs[n.ev["var"]].id == n.id:
            rhs = n.ev["rhs"]
            t_flags, t_eqs, t_dis = dict(flags), eqs, dis
            t_flags[n.ev["var"]] = True
            ok = True
            for a, b in _re.findall(r"\b([A-Za-z_]\w*)\s*==\s*([A-Za-z_]\w*)\b", rhs):
                r = add_eq(t_eqs, t_dis, a, b)
                if r is None:
                    ok = False
                    break
                t_eqs, t_dis = r
            for neg in _re.findall(r"!\s*([A-Za-z_]\w*)\b", rhs):
                if t_flags.get(neg) is True:
                    ok = False
                t_flags[neg] = False
            f_flags = dict(flags)
            f_flags[n.ev["var"]] = False
            branches = ([(t_flags, t_eqs, t_dis)] if ok else []) + [(f_flags, eqs, dis)]
        for flags2, eqs2, dis2 in branches:
            for s, i in n.succ:
                if (n.id, i) in guard_edges:
                    continue
                nf, ne, nd = flags2, eqs2, dis2
                if n.kind == "branch" and n.cond and len(n.succ) == 2:
                    c = n.cond
                    truth = (i == 0)
                    if c.get("op") == "truth" and len(c["l"]["refs"]) == 1 and c["l"]["text"].strip("!() ") == c["l"]["refs"][0]:
                        v = c["l"]["refs"][0]
                        val = truth != bool(c.get("neg"))
                        if v in flags2 and flags2[v] != val:
                            continue
                        if v in flagdefs or v in flags2:
                            nf = dict(flags2)
                            nf[v] = val
                    elif c.get("op") in ("==", "!=") and len(c["l"]["refs"]) == 1 and len(c["r"]["refs"]) == 1 and "const" not in c["l"] and "const" not in c["r"] \
                            and c["l"]["text"].strip("() ") == c["l"]["refs"][0] and c["r"]["text"].strip("() ") == c["r"]["refs"][0]:
                        a, b = c["l"]["refs"][0], c["r"]["refs"][0]
                        is_eq = ((c["op"] == "==") == truth) != bool(c.get("neg"))
                        r = add_eq(eqs2, dis2, a, b) if is_eq else add_dis(eqs2, dis2, a, b)
                        if r is None:
                            continue
                        ne, nd = r
                ns = (s, seen, nf, ne, nd)
                k = key(*ns)
                if k not in prev:
                    prev[k] = key(*st)
                    dq.append(ns)
    return None


IDENTITY_FILES = ("operations/union.cc", "operations/intersection.cc", "operations/difference.cc", "operations/compare.cc", "operations/arith_templ.h")


def rule_identity(P):
    R = RuleResult("ct.identity", "a result computed from an operand that was expanded as an identity pattern (initIdentity with the incoming index, which is not part of the key) is never added to the compute table: every path from initIdentity to addCT crosses the `!wasIdentity()` arm for that node")
    for f in sorted(P.fns.values(), key=lambda f: (f["file"], f["line"], f["inst"])):
        if f["file"] not in IDENTITY_FILES or not f.get("cfg"):
            continue
        g = Graph(f)
        inits = [n for n in g.nodes if n.kind == "call" and qmatch(n.ev["q"], "unpacked_node::initIdentity") and n.ev.get("recv")]
        adds = [n for n in g.nodes if n.kind == "call" and qmatch(n.ev["q"], "ct_entry_type::addCT")]
        if not inits or not adds:
            continue
        R.functions.add(f["inst"])
        for X in sorted({n.ev["recv"] for n in inits}):
            guards = set()
            for n in g.nodes:
                if n.kind == "branch" and n.cond and len(n.succ) == 2 and any(c.endswith("unpacked_node::wasIdentity") for c in n.cond["calls"]) and X in n.cond["refs"] and n.cond.get("op") == "truth":
                    was_true = 1 if n.cond.get("neg") else 0
                    # after X->initIdentity(), X->wasIdentity() holds: the only arm a real execution can take is the
                    # "was identity" arm.  Block the other arm; any path that still reaches addCT either by-passes the
                    # test or goes through the identity arm.
                    guards.add((n.id, 1 - was_true))
            R.paths += 1
            must = {n.id for n in inits if n.ev["recv"] == X}
            p = _corr_path(g, must, lambda n: n in adds, guards)
            iid = "%s: results built from identity-expanded %s are not cached" % (f["inst"].replace(M, "")[:90], X)
            if p:
                R.fail(iid, where(f, p[-1].line), Finding(R.rule, f["file"], base_name(f["q"]), "addCT/" + X,
                       "a result that depends on the incoming index (operand %s expanded by initIdentity) can be added to the compute table, whose key does not contain that index: a later hit returns it for a different index" % X,
                       p[-1].line, show_path(p), inst=f["inst"]))
            else:
                R.ok(iid, where(f, adds[0].line), guards=len(guards))
    R.require_floor(16, "identity-expandable operand nodes")
    return R


SET_KIND = {"setI": "I", "setL": "L", "setN": "N", "setF": "F", "setD": "D", "setG": "G", "set": "V"}
GET_KIND = {"getI": "I", "getL": "L", "getN": "N", "getF": "F", "getD": "D", "getG": "G", "get": "V"}


def _seqs(g, start, stop_pred, item):
    """all distinct sequences of item(node) (non-None) along paths from start until a node with stop_pred (or the exit)"""
    out = set()
    seen = set()
    stack = [(start, ())]
    while stack:
        x, seq = stack.pop()
        if (x, seq) in seen:
            continue
        seen.add((x, seq))
        if len(seen) > 200000:
            raise AnalysisBroken("ct.schema: path enumeration exploded in %s" % g.fn["inst"])
        n = g.nodes[x]
        it = item(n)
        if it is not None:
            seq = seq + (it,)
        if stop_pred(n) or not n.succ:
            if n.kind != "throw":
                out.add(seq)
            continue
        for s, _ in n.succ:
            stack.append((s, seq))
    return out


def _shape_in(s, shapes):
    """shape membership with '?' (policy-chosen scalar kind) matching any non-node kind"""
    for t in shapes:
        # 'V' = an edge_value object: it carries its own scalar type, so it fits a slot declared L/F/D (mdd2index stores a
        # long through an edge_value), but never a node slot and never the 'I' slot that holds the level
        if len(t) == len(s) and all(a == b or (a == "?" and b != "N") or (b == "?" and a != "N") or ({a, b} <= {"V", "L", "F", "D"}) for a, b in zip(s, t)):
            return True
    return False


def _schema_arg_kind(a):
    a = a.strip()
    if a.startswith("'") and len(a) >= 3:
        return a[1]
    if "edgeValueTypeLetter" in a or "getEdgeType" in a:
        return "V"
    if "getCTletter" in a:
        return "?"      # result type chosen by a policy class (cardinality, range): any scalar kind
    if a.startswith("ct_itemtype("):
        return _schema_arg_kind(a[len("ct_itemtype("):-1])
    return "N:" + a.replace("this->", "")


def rule_schema(P):
    R = RuleResult("ct.schema", "for every new-style entry type, the shapes of the key and of the result built by the compute functions are shapes the constructor declared (item kinds I/L/N/V… in order, same count), and every declared key shape is used")
    op_classes = P.subclasses(M + "operation")
    n_types = 0
    for cls in sorted({f["cls"] for f in P.fns.values() if f.get("ctor") and f.get("class") in op_classes}):
        ctors = [f for f in P.fns.values() if f.get("ctor") and f.get("cls") == cls and f.get("cfg")]
        members = set()
        for c in ctors:
            for b in c["cfg"]["blocks"]:
                for ev in b["ev"]:
                    if ev["k"] == "store" and ev.get("rhsnew") == "ct_entry_type":
                        members.add(ev["member"])
        if not members:
            continue
        # declared shapes, per entry type member
        declared_key, declared_res = {}, {}
        for m in sorted(members):
            ks, rs = set(), set()
            for c in ctors:
                g = Graph(c)
                def item(n, m=m):
                    if n.kind == "call" and n.ev.get("recvq") == m and n.ev["q"].startswith(M + "ct_entry_type::"):
                        nm = n.ev["q"].split("::")[-1]
                        if nm in ("setFixed", "appendFixed", "setRepeat", "appendRepeat", "setResult", "appendResult"):
                            return (nm, tuple(_schema_arg_kind(a) for a in n.ev["args"]))
                    return None
                created = [n for n in g.nodes if n.kind == "store" and n.ev["member"] == m and n.ev.get("rhsnew") == "ct_entry_type"]
                for cr in created:
                    for seq in _seqs(g, cr.id, lambda n: n.id == g.exit, item):
                        key, res, rep = [], [], []
                        for nm, kinds in seq:
                            if nm == "setFixed":
                                key = list(kinds)
                            elif nm == "appendFixed":
                                key += list(kinds)
                            elif nm in ("setRepeat", "appendRepeat"):
                                rep += list(kinds)
                            elif nm == "setResult":
                                res = list(kinds)
                            elif nm == "appendResult":
                                res += list(kinds)
                        if rep:
                            continue    # repeating keys: variable length, not compared
                        if key:
                            ks.add(tuple(k[0] for k in key))
                        if res:
                            rs.add(tuple(k[0] for k in res))
            if ks:
                declared_key[m] = ks
                declared_res[m] = rs
        if not declared_key:
            continue
        all_key = set().union(*declared_key.values())
        all_res = set().union(*declared_res.values())
        # uses
        used_key = set()
        for f in sorted((f for f in P.fns.values() if f.get("cls") == cls and f.get("cfg") and not f.get("ctor") and not f.get("dtor")), key=lambda f: f["line"]):
            g = Graph(f)
            finds = [n for n in g.nodes if n.kind == "call" and qmatch(n.ev["q"], "ct_entry_type::findCT") and n.ev.get("recvq") in members]
            adds = [n for n in g.nodes if n.kind == "call" and qmatch(n.ev["q"], "ct_entry_type::addCT") and n.ev.get("recvq") in members]
            if not finds and not adds:
                continue
            R.functions.add(f["inst"])
            # the key / result vectors are whatever locals are handed to findCT / addCT (first and second argument)
            vecs = {"key": {n.ev["args"][0].strip() for n in finds + adds if n.ev.get("args")},
                    "res": {n.ev["args"][1].strip() for n in finds + adds if len(n.ev.get("args", [])) > 1}}
            def kind_of(n, vec):
                if n.kind != "call":
                    return None
                if n.ev["q"].startswith(M + "ct_item::") and any(n.ev.get("recv", "").startswith(v + "[") for v in vecs[vec]):
                    nm = n.ev["q"].split("::")[-1]
                    if nm == "set":
                        sig = n.ev.get("sig", "")
                        return {"(long)": "L", "(int)": "I", "(float)": "F", "(double)": "D"}.get(sig, "V")
                    return SET_KIND.get(nm)
                # the item handed to a policy helper (RTYPE::set(res[0], value)): kind chosen by the policy
                if not n.ev["q"].startswith(M + "ct_item::") and not n.ev["q"].startswith(M + "ct_vector::") and n.ev["q"].split("::")[-1] == "set" \
                        and n.ev["args"] and any(n.ev["args"][0].startswith(v + "[") for v in vecs[vec]):
                    return "?"
                return None
            key_item = lambda n: kind_of(n, "key")
            res_item = lambda n: kind_of(n, "res")
            if finds:
                R.paths += 1
                shapes = {s for s in _seqs(g, g.entry, lambda n: n in finds, key_item) if s}
                # only paths that actually reach a lookup
                shapes_reaching = set()
                for fn_ in finds:
                    pass
                bad = sorted(s for s in shapes if not _shape_in(s, all_key))
                used_key |= shapes
                iid = "%s: key shapes %s ⊆ declared %s" % (f["inst"].replace(M, "")[:80], sorted("".join(s) for s in shapes), sorted("".join(s) for s in all_key))
                if shapes and not bad:
                    R.ok(iid, where(f, finds[0].line))
                else:
                    R.fail(iid, where(f, finds[0].line), Finding(R.rule, f["file"], base_name(f["q"]), "key-shape",
                           "the key handed to findCT has item kinds %s, which the constructor never declares (declared: %s): slots are then read with the wrong type/forest" % (
                               [" ".join(s) for s in bad] or "none", sorted(" ".join(s) for s in all_key)), finds[0].line, inst=f["inst"]))
            if adds:
                R.paths += 1
                shapes = set()
                for a in adds:
                    # result items written between the last failed lookup and this add
                    starts = finds or [g.nodes[g.entry]]
                    for st in starts:
                        for s in _seqs(g, st.id, lambda n, a=a: n.id == a.id, res_item):
                            if s and g.path(st, lambda n, a=a: n.id == a.id) is not None:
                                shapes.add(s)
                bad = sorted(s for s in shapes if not _shape_in(s, all_res))
                iid = "%s: result shapes %s ⊆ declared %s" % (f["inst"].replace(M, "")[:80], sorted("".join(s) for s in shapes), sorted("".join(s) for s in all_res))
                if shapes and not bad:
                    R.ok(iid, where(f, adds[0].line))
                else:
                    R.fail(iid, where(f, adds[0].line), Finding(R.rule, f["file"], base_name(f["q"]), "result-shape",
                           "the result handed to addCT has item kinds %s, not a declared result shape (%s)" % ([" ".join(s) for s in bad] or "none", sorted(" ".join(s) for s in all_res)), adds[0].line, inst=f["inst"]))
        n_types += len(declared_key)
        unused = sorted(s for s in all_key if not _shape_in(s, used_key))
        iid = "%s: every declared key shape is built by some compute path" % cls.replace(M, "")[:90]
        if used_key and not unused:
            R.ok(iid, "src/%s" % ctors[0]["file"])
        elif used_key:
            R.fail(iid, where(ctors[0]), Finding(R.rule, ctors[0]["file"], base_name(ctors[0]["q"]), "unused-shape",
                   "the constructor declares key shape(s) %s that no compute path builds: constructor and compute disagree on when the level is part of the key" % [" ".join(s) for s in unused], ctors[0]["line"], inst=ctors[0]["inst"]))
    if n_types < 20:
        raise AnalysisBroken("ct.schema: only %d new-style entry types found, expected the ≈25 of the anchored operations" % n_types)
    R.require_floor(60, "key/result shape obligations")
    return R


def rule_key_level_flag(P):
    """a constructor flag that decides whether the level is part of the compute-table key (setFixed('I', X, Y) vs setFixed(X, Y)) says whether the
    operand forests skip levels in a way that makes the result depend on the level: it is a function of the key forests X, Y and of nothing else"""
    R = RuleResult("ct.key-level-flag", "in every operation constructor, the flag selecting between a compute-table key with the level (setFixed('I', X, Y)) and without it is computed from reduction-rule queries on the key forests X, Y only")
    canon = lambda t: re.sub(r"F$", "", re.sub(r"\s+", "", t.replace("this->", "")))
    seen = set()
    for f in sorted(P.fns.values(), key=lambda f: (f["file"], f["line"], f["inst"])):
        if not f.get("ctor") or not f.get("cfg") or not f["file"].startswith("operations/") or (f["file"], f["line"]) in seen:
            continue
        seen.add((f["file"], f["line"]))
        g = Graph(f)
        fixed = [k for k in g.nodes if k.kind == "call" and qmatch(k.ev["q"], "ct_entry_type::setFixed")]
        appended = [k for k in g.nodes if k.kind == "call" and qmatch(k.ev["q"], "ct_entry_type::appendFixed")]
        if not fixed and not appended:
            continue
        stores = {}
        for k in g.nodes:
            if k.kind == "store":
                stores.setdefault(k.ev["member"].split("::")[-1], []).append(k)
        for b in g.nodes:
            if b.kind != "branch" or not b.cond or len(b.succ) != 2:
                continue
            flag = re.sub(r"\s+", "", b.cond["text"].replace("this->", "")).lstrip("!")
            if flag not in stores:
                continue
            arms = []
            for s_, i in b.succ:
                r_ = g.reach([s_])
                o_ = g.reach([x for x, j in b.succ if j != i])
                arms.append([k for k in fixed if k.id in r_ and k.id not in o_])
            with_level = [a and all(_nzq(k.ev["args"][0]) == "'I'" for k in a) for a in arms]
            without = [a and all(_nzq(k.ev["args"][0]) != "'I'" for k in a) for a in arms]
            keyf = {canon(a) for arm in arms for k in arm for a in k.ev["args"] if _nzq(a) != "'I'"}
            if not ((with_level[0] and without[1]) or (with_level[1] and without[0])):
                # the incremental form: `if (flag) ct->appendFixed('I');` followed by appendFixed(forest) calls
                arms2 = []
                for s_, i in b.succ:
                    r_ = g.reach([s_])
                    o_ = g.reach([x for x, j in b.succ if j != i])
                    arms2.append([k for k in appended if k.id in r_ and k.id not in o_])
                lv = [a and all(_nzq(k.ev["args"][0]) == "'I'" for k in a) for a in arms2]
                if not ((lv[0] and not arms2[1]) or (lv[1] and not arms2[0])):
                    continue
                keyf = {canon(k.ev["args"][0]) for k in appended if re.fullmatch(r"(this->)?\w+", _nzq(k.ev["args"][0]))}
            R.functions.add(f["inst"])
            R.paths += 1
            queried = set()
            pending = [st.ev["rhs"] for st in stores[flag]]
            depth = 0
            while pending and depth < 4:
                nxt = []
                for rhs in pending:
                    queried |= {canon(m) for m in re.findall(r"([\w>.-]+)->is(?:Fully|Identity|Quasi)Reduced\(\)", rhs.replace("this->", ""))}
                    for w in re.findall(r"(?<![\w>.])([A-Za-z_]\w*)\b(?!\s*(?:\(|->))", rhs.replace("this->", "")):
                        if w in stores and w != flag:
                            nxt += [st.ev["rhs"] for st in stores[w]]
                pending = nxt
                depth += 1
            iid = "%s: `%s` (level in the key) is a function of the key forests %s" % (base_name(f["q"]).replace(M, "")[:60], flag, sorted(keyf))
            if queried and queried <= keyf:
                R.ok(iid, where(f, b.line))
            else:
                R.fail(iid, where(f, stores[flag][0].line), Finding(R.rule, f["file"], base_name(f["q"]), "flag:" + flag,
                       "`%s` decides whether the level is part of the compute-table key over %s, but it is computed from %s: whether the result depends on the level is a property of the operand forests, not of %s" % (
                           flag, sorted(keyf), sorted(queried) or "no reduction-rule query", sorted(queried - keyf) or "anything else"), stores[flag][0].line, inst=f["inst"]))
    R.require_floor(9, "constructors choosing between keys with and without the level")
    return R


def _nzq(t):
    return re.sub(r"\s+", "", t)


def rule_state_in_key(P):
    """a compute-table entry may be reused by any later call of the same operation object: what it stores must be a function of its key alone.  An
    operation whose cached recursion reads members that a per-call set-up method rewrites (saturation: the split of *this call's* relation into
    top_exactly[k] / top_at_or_below[k]) caches results that are valid for that relation only, while the key holds a level and two nodes"""
    R = RuleResult("ct.state-in-key", "in every operation class with compute-table entry types: no member that a set-up method (one that neither looks up nor adds entries, and is not a constructor) rewrites is read by the cached recursion — unless the caller of the set-up invalidates the class's entries")
    by_cls = {}
    for f in P.fns.values():
        if f.get("cfg") and f.get("cls") and f["file"].startswith("operations/"):
            by_cls.setdefault(f["cls"], []).append(f)
    n = 0
    for cls, fs in sorted(by_cls.items()):
        info = {}
        for f in fs:
            nm = f["q"].split("::")[-1]
            rd, wr, ct, callees, inval = set(), set(), False, set(), False
            for b in f["cfg"]["blocks"]:
                for e in b["ev"]:
                    if e["k"] == "call":
                        q = e["q"]
                        if q.endswith("::findCT") or q.endswith("::addCT"):
                            ct = True
                        if re.search(r"removeAll|markForDestroy|invalidate|removeStales", q):
                            inval = True
                        if q.rsplit("::", 1)[0] == f["q"].rsplit("::", 1)[0]:
                            callees.add(q.split("::")[-1])
                        for t in [str(e.get("recv") or "")] + list(e.get("args") or []):
                            rd |= set(re.findall(r"this->(\w+)\[", t))
                        m = re.match(r"this->(\w+)\[", str(e.get("recv") or ""))
                        if m and q.split("::")[-1] in ("set", "operator=", "attach", "set_and_link"):
                            wr.add(m.group(1))
                    elif e["k"] == "store" and e.get("base") == "this":
                        wr.add(e["member"].split("::")[-1])
                if b.get("cond"):
                    rd |= set(re.findall(r"this->(\w+)\[", b["cond"]["text"]))
            d = info.setdefault(nm, {"rd": set(), "wr": set(), "ct": False, "callees": set(), "inval": False, "ctor": False, "f": f})
            d["rd"] |= rd
            d["wr"] |= wr
            d["ct"] |= ct
            d["callees"] |= callees
            d["inval"] |= inval
            d["ctor"] |= bool(f.get("ctor") or f.get("dtor"))
        if not any(d["ct"] for d in info.values()):
            continue
        n += 1
        # methods reachable from a CT-using method inside the class
        reach = {m_ for m_, d in info.items() if d["ct"]}
        changed = True
        while changed:
            changed = False
            for m_ in list(reach):
                for c in info[m_]["callees"]:
                    if c in info and c not in reach:
                        reach.add(c)
                        changed = True
        cached_reads = set().union(*[info[m_]["rd"] for m_ in reach]) if reach else set()
        setups = {m_: d for m_, d in info.items() if not d["ctor"] and not d["ct"] and m_ not in reach and d["wr"]}
        R.functions.add(cls)
        R.paths += 1
        clash = {(m_, v) for m_, d in setups.items() for v in d["wr"] & cached_reads}
        callers_inval = any(d["inval"] for d in info.values() if d["callees"] & set(setups))
        iid = "%s: cached recursion reads only key-determined state" % cls.replace(M, "")[:90]
        if not clash or callers_inval:
            R.ok(iid, where(fs[0]))
        else:
            m_, v = sorted(clash)[0]
            f0 = info[m_]["f"]
            R.fail(iid, where(f0), Finding(R.rule, f0["file"], base_name(f0["q"]), "state:" + ",".join(sorted({v_ for _, v_ in clash})),
                   "%s rewrites %s for each call, and the cached recursion (%s) reads it: entries added during one call are returned during the next although they were computed for another relation — the key does not say which" % (
                       m_, sorted({v_ for _, v_ in clash}), ", ".join(sorted(m2 for m2 in reach if info[m2]["rd"] & {v_ for _, v_ in clash}))), f0["line"]))
    if n < 15:
        raise AnalysisBroken("ct.state-in-key: only %d operation classes with compute-table entries found, expected ≥15" % n)
    R.require_floor(15, "operation classes with compute-table entries")
    return R


def rule_unrolled_equal(P):
    """ct_tmpl::find compares a stored key with the wanted key through equal_sw, a switch over the key length whose cases fall through, one slot per
    case, with memcmp for long keys.  The unrolled form means the same as memcmp only if every slot 0..n-1 is compared, slot i with slot i, over the
    whole width of the slot: all comparisons read the same union member.  Seed C07d compared one slot through the 32-bit member: keys whose 64-bit
    item (an EV+ edge value) differ by a multiple of 2^32 then hit each other's entries"""
    R = RuleResult("ct.unrolled-equal", "every equal_sw overload: the slot comparisons pair a[i] with b[i] through one and the same member, for every i from 0 up to the largest unrolled index, each exactly once")
    seen = set()
    n = 0
    for f in sorted(P.fns.values(), key=lambda f: (f["file"], f["line"], f["inst"])):
        if not f.get("cfg") or not f["q"].endswith("::equal_sw") or (f["file"], f["line"]) in seen:
            continue
        seen.add((f["file"], f["line"]))
        g = Graph(f)
        R.functions.add(f["inst"])
        comps = []
        for k in g.nodes:
            t = None
            if k.kind == "branch" and k.cond and k.cond.get("op") in ("!=", "=="):
                t = k.cond["text"]
            elif k.kind == "ret" and re.search(r"[!=]=", k.ev.get("text") or "") and "memcmp" not in (k.ev.get("text") or ""):
                t = k.ev["text"]
            if not t:
                continue
            m = re.fullmatch(r"\(?(\w+)\[(\d+)\](?:\.(\w+))?(!=|==)(\w+)\[(\d+)\](?:\.(\w+))?\)?", re.sub(r"\s+", "", t))
            if m:
                comps.append((m.groups(), k.line))
        if not comps:
            raise AnalysisBroken("ct.unrolled-equal: %s has no slot comparisons any more" % f["q"])
        short = "%s%s" % (base_name(f["q"]).replace(M, ""), f["sig"][:28])
        members = {c[0][2] for c in comps} | {c[0][6] for c in comps}
        from collections import Counter
        major = Counter([c[0][2] for c in comps] + [c[0][6] for c in comps]).most_common(1)[0][0]
        idx = sorted(int(c[0][1]) for c in comps)
        for (a, i, ma, op, b, j, mb), line in comps:
            n += 1
            R.paths += 1
            iid = "%s: slot %s compared with slot %s through .%s/.%s" % (short, i, j, ma, mb)
            if i != j or a == b or ma != mb or ma != major:
                R.fail(iid, where(f, line), Finding(R.rule, f["file"], base_name(f["q"]), "slot:%s" % i,
                       "slot %s is compared as %s[%s]%s %s %s[%s]%s while the other slots are compared through %s: the unrolled comparison no longer means what memcmp of the whole key means (keys that differ only in the part left out hit each other's entries)" % (i, a, i, "." + ma if ma else "", op, b, j, "." + mb if mb else "", ("." + major) if major else "the plain element"), line))
            else:
                R.ok(iid, where(f, line))
        R.paths += 1
        iid = "%s: slots 0..%d each compared once" % (short, idx[-1])
        if idx == list(range(idx[-1] + 1)):
            R.ok(iid, where(f))
        else:
            R.fail(iid, where(f), Finding(R.rule, f["file"], base_name(f["q"]), "slots-complete", "the unrolled cases compare slots %s: a slot is missing or compared twice" % idx, f["line"]))
    if n < 24:
        raise AnalysisBroken("ct.unrolled-equal: only %d slot comparisons found in equal_sw, expected 24" % n)
    R.require_floor(24, "slot comparisons of equal_sw")
    return R


RULES = [rule_recycle_gate, rule_node_items, rule_dead_before_return, rule_identity, rule_schema, rule_key_level_flag, rule_state_in_key, rule_unrolled_equal]
