"""Which rules decide which property (DESIGN §3), and the shared analysis context."""
import frontend
import rules_life
import rules_layer
import rules_guard
import rules_orphan
import rules_own
import rules_ct
import rules_sibling
import rules_codec
import rules_ftype
import rules_canon
import rules_storage
import rules_dispatch
import rules_level
import rules_eval


class Context:
    """lazily built program model shared by the rules of one run"""

    def __init__(self, fe, tier):
        self.fe = fe
        self.tier = tier
        self._program = None
        self._cache = {}
        self.extra = {}

    @property
    def program(self):
        if self._program is None:
            self._program = frontend.Program(self.fe)
        return self._program

    def memo(self, key, fn):
        if key not in self._cache:
            self._cache[key] = fn()
        return self._cache[key]

    def extra_evidence(self, prop):
        return self.extra.get(prop)


def on_program(rule):
    """adapt a rule written against Program to the Context protocol (memoised per run)"""
    def run(ctx):
        return ctx.memo(rule.__module__ + "." + rule.__name__, lambda: rule(ctx.program))
    run.__name__ = rule.__name__
    run.__module__ = rule.__module__
    return run


def callers_for(prop):
    def run(ctx):
        return ctx.memo("layer.callers." + prop, lambda: rules_layer.rule_callers(ctx.program, prop))
    run.__name__ = "rule_callers[%s]" % prop
    run.__module__ = "rules_layer"
    return run


STRUCTURAL = ("exact static rule check over all paths of the enumerated functions of /repo's current source; "
              "decides the named structural clauses (necessary conditions), not the behaviour itself")

PROPS = {
    "C01": {
        "title": "Canonicity: edges are equal exactly when they denote the same function",
        "rules": [on_program(rules_canon.rule_canon), on_program(rules_canon.rule_hash), on_program(rules_canon.rule_equals), on_program(rules_canon.rule_edge_array_guarded), callers_for("C01"), on_program(rules_level.rule_index_kind), on_program(rules_storage.rule_singleton_scan)],
        "explanation": STRUCTURAL + ". C01: reduce-then-lookup-before-insert on every path of node creation (normalise, transparent/identity/redundant elimination, sort, hash, find, insert — in order), "
                       "hash recipe agreement between the unpacked and the packed form in all four variants, edge equality reading forest id + node + edge value, who may write packed nodes / the unique table, and level/variable index kinds (the level-size bound and the unique-table slot of a node are taken for the variable at its level). Round 7: a sparse unpacked node is sorted before anything that depends on the order of its entries (EV* normalisation, the hash, the duplicate lookup), and unpacked_node touches its edge-value array only under a hasEdges()/_edge test (defect D24).",
        "assumptions": ["that the reduction conditions and the EV normal forms are the right ones is not decided (value semantics)", "float tolerance effects in EV* are not decided"],
        "technique": "ordered must-pass-through rules over the clang CFG of forest::createReducedNode; sibling comparison of the two hash functions per variant; who-may-call tables",
        "level_text": "exact static rule check over all paths of forest::createReducedNode and the two hash functions plus the caller tables; decides the structural clauses canonicity rests on, not the normal forms themselves",
        "design_ref": "DESIGN.md §2.7, §2.6, §2.5, §3 C01",
        "level_note": "trusts clang 14 CFGs; events are 'calls that reach X', so extracting a step into a helper keeps the rule satisfied only if the helper is called on every path",
    },
    "C02": {
        "title": "Every stored node obeys the forest's declared reduction rule",
        "rules": [on_program(rules_canon.rule_canon), callers_for("C02"), on_program(rules_layer.rule_active_count), on_program(rules_layer.rule_cache_before_rewrite),
                  on_program(rules_layer.rule_exchange_once), on_program(rules_sibling.rule_swap_loops), on_program(rules_canon.rule_hash), on_program(rules_storage.rule_singleton_scan), on_program(rules_level.rule_chain_from_built)],
        "explanation": STRUCTURAL + ". C02: no transparent / redundant / identity pattern is inserted on any path of node creation and the stored level is the unpacked level; packed nodes are written only by creation and by the reordering primitives; "
                       "node count = live nodes (incActive/decActive pairing); the in-place rewrite of the adjacent-variable swap visits the same ranges in its MT and EV+ twins; full and sparse forms hash identically. Round 7: a node built at a level is chained upwards (makeRedundantsTo / makeIdentitiesTo / chainToLevel) from that level, so no level between is skipped or doubled (defect D26, seed C02c).",
        "assumptions": ["children strictly below parents, quasi-reduced never skipping and singleton-edge legality after arbitrary operation histories depend on the values operations put into nodes: not decided"],
        "technique": "ordered must-pass-through rules over clang CFGs; who-may-call tables; twin-function comparison of the swap routines",
        "level_text": "exact static rule check over forest::createReducedNode, the caller tables, the allocation/deallocation sites and the twin swap routines; decides structural necessary conditions of the stored-node invariants",
        "design_ref": "DESIGN.md §2.7, §2.5, §3 C02",
        "level_note": "trusts clang 14 CFGs and the caller table in lib/rules_layer.py",
    },
    "C03": {
        "title": "Functions built from minterms, constants and variables evaluate as specified",
        "rules": [on_program(rules_eval.rule_level_sign), on_program(rules_eval.rule_twins), on_program(rules_eval.rule_eval_dispatch),
                  on_program(rules_guard.rule_edge_for_value), on_program(rules_guard.rule_zero_of_stored), on_program(rules_eval.rule_fold_mirror), on_program(rules_eval.rule_uniform_shortcut), on_program(rules_eval.rule_sparse_shrunk)],
        "explanation": STRUCTURAL + ". C03: evaluation clauses only ('evaluation never depends on how the function is represented internally'): the evaluation walk follows the minterm's unprimed value at unprimed levels and its primed value at primed levels "
                       "(by-node walkers: from(X) on the X>0 edge, to(-X) on the other; by-level walker for identity-reduced relations: from, downLevel, to / from==to test for a skipped primed level, downLevel); "
                       "the multi-terminal and the edge-valued walkers (all four edge-valued instantiations) make the same sequence of tests and steps; evaluate() selects the walker by set / relation / identity-reduced relation and instantiates the "
                       "edge-valued helper with the edge operation and scalar type of the forest; the value→edge encoding rejects a value of the wrong range type and chooses the EV* zero edge on the stored value; and one clause of the construction half: the min / max folds over the values of repeated minterms treat an infinite element and an infinite accumulator as mirror images (the built function cannot depend on the order of the collection).",
        "assumptions": ["of the construction half of C03 (the recursive partition builder over minterm collections) two clauses are decided: a whole-interval shortcut is taken only under tests that imply every minterm of the interval has the same entry at the level, and the level is covered by the pattern that entry names; a builder node of declared sparse size is shrunk to the number of entries actually added before it is reduced (defect D23); the general partition loop, max/min combination and default values are pointwise value semantics and are not decided",
                        "that the walk reads the right child is trusted to getDownPtr (decided structurally under C12's layout rule)"],
        "technique": "guard-edge dominance and step-sequence patterns over clang CFGs of the evaluator helpers; twin comparison of the MT and EV walkers; control-dependence contexts of the walker selections",
        "level_text": "exact static rule check over evaluator_helper_mt, every instantiation of evaluator_helper<EOP>, dd_edge::evaluate and forest::getEdgeForValue; decides structural necessary conditions of the evaluation clause, not the minterm builder",
        "design_ref": "DESIGN.md §3 C03 (as built)",
        "level_note": "trusts clang 14 CFGs; C03's construction clauses stay undecided and are listed under assumptions",
    },
    "C04": {
        "title": "Set algebra (union, intersection, difference, complement, cross) is pointwise",
        "rules": [rules_ftype.rule_mix_sets, callers_for("C04"), on_program(rules_level.rule_next_level), on_program(rules_level.rule_terminal_type), on_program(rules_level.rule_operand_unpack), on_program(rules_level.rule_chain_args), on_program(rules_level.rule_position_kind), rules_orphan.rule_terminal_operands, rules_own.rule_own],
        "explanation": STRUCTURAL + ". C04: ownership clause (round 9: the result of a set operation is a well-formed diagram under every deletion policy only if every handle placed in it is owned when it is placed — the link/unlink typing of C06 over the same code, seed C04d); cross-forest clause (every handle in union/intersection/difference/complement/cross/copy is used only with its own forest, for every assignment of operand and result forests; "
                       "what is returned, stored or chained in the result forest was produced there), immutability clause (operations cannot reach the primitives that rewrite packed nodes), and the level discipline of the level-synchronised recursion "
                       "(a set-style next level k-1 is computed only from a level that is non-negative on every path; relation levels go through MXD_levels::downLevel — the cross-forest copy broke this when entered at a primed level, defect D11).",
        "assumptions": ["that the recursion computes OR/AND/AND-NOT/NOT/cross is not decided", "the sign of level parameters and loop counters is the caller's contract (listed, not decided)", "terminal handles are treated as forest independent (value translation between range types is not checked)",
                        "handles read from compute-table results are untyped until linked with a forest"],
        "technique": "forest-indexed typing of node handles (path-sensitive dataflow over clang CFGs, symbols = forest members of the operation class); who-may-call tables; sign typing of level locals with guard-edge dominance for conditionally normalised levels",
        "level_text": "exact static rule check over every method of the set-algebra operation classes; decides the cross-forest, immutability and level-sign clauses",
        "design_ref": "DESIGN.md §2.2, §2.5, §3 C04",
        "level_note": "trusts clang 14 CFGs and the role table of compute() parameters in tool/msa/ftype.cc",
    },
    "C05": {
        "title": "Element-wise arithmetic, comparison, min/max and user-defined maps are pointwise",
        "rules": [on_program(rules_guard.rule_div_zero), on_program(rules_guard.rule_sub_infinity), on_program(rules_sibling.rule_mirror_simplify), rules_ftype.rule_mix_arith,
                  on_program(rules_level.rule_terminal_type), on_program(rules_level.rule_next_level), on_program(rules_level.rule_fold_zeros), on_program(rules_dispatch.rule_range_types), on_program(rules_dispatch.rule_labeling_family), on_program(rules_guard.rule_partial_shortcut), on_program(rules_layer.rule_result_by_value), on_program(rules_level.rule_operand_unpack), on_program(rules_ct.rule_identity)],
        "explanation": STRUCTURAL + ". C05: partiality clause (every `/` and `%` on operand values is dominated by a zero test throwing DIVIDE_BY_ZERO; x - infinity throws SUBTRACT_INFINITY; a shortcut predicate of a throwing policy may answer true only by pinning the second operand to one constant handle — six shortcuts taken on the first operand alone are recorded as known findings), "
                       "mirror clause (for a commutative operation the two shortcut predicates simplifiesToFirstArg/SecondArg are mirror images), cross-forest clause (handles are used only with their own forest), "
                       "range clause (a terminal built from a truth value carries the result forest's terminal type unless the operation is all-BOOLEAN) the level discipline of the recursion (set-style next level only from non-negative levels), and the range-scan clause (a scalar fold that skips zero children is a plain sum with 0 for handle 0; minimum / maximum scans visit every child — defect D12), and the factory clause (value-typed templates are instantiated with the scalar type of the case they are constructed under).",
        "assumptions": ["pointwise values and the correctness of the shortcut predicates themselves are not decided", "only policies with commutes()==true are subject to the mirror law"],
        "technique": "must-check dominance over clang CFGs; mirror-image comparison of twin predicates after operand renaming; forest-indexed handle typing; constructor-signature rule for terminals; sign typing of level locals",
        "level_text": "exact static rule check over every instantiation of the arithmetic policies in operations/arith_*.cc; decides the partiality, mirror and cross-forest clauses, not the pointwise values",
        "design_ref": "DESIGN.md §2.4, §2.2, §3 C05",
        "level_note": "trusts clang 14 CFGs; the mirror comparison is textual on clang-printed conditions/returns after renaming the operand parameters by position",
    },
    "C06": {
        "title": "Node lifetime: reference counts are exact, nothing dangles, nothing leaks",
        "rules": [rules_own.rule_own, callers_for("C06"), on_program(rules_sibling.rule_counter_width), on_program(rules_ct.rule_recycle_gate), on_program(rules_sibling.rule_refcount_twins), on_program(rules_layer.rule_edge_set_balance)],
        "explanation": STRUCTURAL + ". C06: link/unlink discipline — on every non-throwing path of every analysed function each node_handle reference is created, moved into exactly one owner and released exactly once; "
                       "nodes die and handles are recycled only from the last-unlink/last-uncache state machine. Round 7: dd_edge::set(n), the consuming root setter, releases one reference on every live-forest path; set_and_link links and unlinks together or not at all (seed C06d).",
        "assumptions": ["values flowing through arrays/containers are untracked (possible miss, never an alarm)", "throwing paths are exempt (C06 excludes error paths)",
                        "slot-level primitives createReducedNode/deleteNode/linkAllDown are the trusted base", "counter-width arithmetic is covered only by the sibling-agreement rule"],
        "technique": "ownership (linear) typing of node handles by path-sensitive dataflow over clang CFGs, with a summary table of MEDDLY's API; who-may-call tables",
        "level_text": "exact static rule check: ownership typing of every node_handle local/parameter in the armed files (all template instantiations), all non-throwing paths; decides the link/unlink discipline, not run-time counts",
        "design_ref": "DESIGN.md §2.1, §3 C06",
        "level_note": "trusts clang 14 CFGs, the ownership summary table in tool/msa/own.cc and the slot-level primitives createReducedNode/deleteNode",
    },
    "C07": {
        "title": "Compute tables are transparent: cached answers equal recomputed answers",
        "rules": [on_program(r) for r in rules_ct.RULES] + [rules_ftype.rule_ct_slots, callers_for("C07"), on_program(rules_layer.rule_cache_before_rewrite), on_program(rules_sibling.rule_counter_width), on_program(rules_sibling.rule_refcount_twins)],
        "explanation": STRUCTURAL + ". C07: a handle is recycled only at cache count zero (including the tail collapse of the handle array); a hit is returned only after the dead-entry scan said alive; "
                       "every NODE item is cache-counted on add and un-counted on delete (same sections), and consulted by the dead/stale scans; reordering clears the tables first. Round 8: the unrolled key comparison of the per-operation tables compares every slot once, slot i with slot i, over the slot's whole width (seed C07d).",
        "assumptions": ["that the key contains every input the result depends on is not decided (non-interference)", "equality of cached and recomputed answers as such is not decided"],
        "technique": "guard-edge dominance and must-pass-through rules over clang CFGs of node_headers and all ct_tmpl instantiations; flag-aware path search; who-may-call tables",
        "level_text": "exact static rule check over lastUnlink/lastUncache/recycleNodeHandle/uncacheNode/unlinkNode and every instantiation of ct_tmpl::{find,isDead,isStale,addEntry,result2entry,deleteEntry}; decides the recycle gate, dead-before-hit and count-symmetry clauses",
        "design_ref": "DESIGN.md §2.3, §3 C07",
        "level_note": "trusts clang 14 CFGs; local bool flags (equal/remove) are tracked only when assigned literals or call results",
    },
    "C08": {
        "title": "Reachability operations return exactly the least fixed point",
        "rules": [on_program(rules_level.rule_diag_fold_total), on_program(rules_dispatch.rule_dispatch), rules_ftype.rule_mix_image, on_program(rules_sibling.rule_image_fire), on_program(rules_dispatch.rule_split_complete), on_program(rules_sibling.rule_graph_diagonals),
                  on_program(rules_ct.rule_key_level_flag), on_program(rules_level.rule_position_kind), on_program(rules_level.rule_chain_args), on_program(rules_level.rule_compare_after_store), on_program(rules_ct.rule_state_in_key), on_program(rules_sibling.rule_policy_reachability),
                  on_program(rules_level.rule_skip_rule_consulted), on_program(rules_level.rule_diagonal_lift), on_program(rules_level.rule_saturation_provenance_monolithic)],
        "explanation": STRUCTURAL + ". C08: one clause — the traditional (frontier / no frontier), saturation and one-step image factories select the same accumulate operator per forest kind "
                       "(boolean MT: UNION, integer MT: DIST_MIN, EV+: MINIMUM), a necessary condition of all algorithms returning the identical edge and of the distance variants using (min, +1) everywhere; "
                       "plus the cross-forest discipline of the reachability code; reduction-rule clause (`relation forests of every reduction rule`): every function that detects a level skipped by a relation node asks that forest for its rule, and saturation's split lifts the common diagonal to its level explicitly instead of letting the forest re-read a lower node (defect D22).",
        "assumptions": ["that the iteration reaches and stops at the least fixed point, and the correctness of fillSplit/recFire, are algorithmic semantics and are not decided"],
        "technique": "dispatch-table extraction from the clang CFGs of the sibling factories (control-dependence on labeling/range tests, template arguments of the instantiated class) and comparison",
        "level_text": "exact static rule check over the four sibling factories and the policy classes they instantiate; decides the accumulate-operator agreement clause only",
        "design_ref": "DESIGN.md §2.9, §3 C08",
        "level_note": "trusts clang 14 CFGs and type printing of the instantiated templates",
    },
    "C09": {
        "title": "One-step image and vector-matrix products follow the relational definition",
        "rules": [rules_ftype.rule_mix_image, on_program(rules_sibling.rule_image_fire), on_program(rules_dispatch.rule_dispatch), on_program(rules_ct.rule_key_level_flag),
                  on_program(rules_level.rule_next_level), on_program(rules_level.rule_position_kind), on_program(rules_level.rule_chain_args), on_program(rules_level.rule_operand_unpack), on_program(rules_sibling.rule_policy_reachability)],
        "explanation": STRUCTURAL + ". C09: flag clause (the constructor flag that decides whether the level is part of the compute-table key — i.e. whether levels skipped by both operands are summed over — is computed from the operand (key) forests only); twin clause (the image step and saturation's fire step define their shared locals alike; the index range written into the result node is the size of the node's own level); cross-forest clause — in the image / vector-matrix template (all instantiations), its helpers and the relation-node abstraction, set forest, relation forest and result forest are three symbols and every handle is used only with its own.",
        "assumptions": ["the relational definition itself is not decided", "the key-level-flag rule decides which forests the level-skipping flag may depend on, not that the flag's formula is the right one", "prepost_set_mtrel's private _compute is reached with swapped operands for MV_MULTIPLY; its parameter roles are then left unknown (no alarm, fewer checks)"],
        "technique": "forest-indexed typing of node handles over clang CFGs; twin comparison; constructor flag provenance (reduction-rule queries vs compute-table key forests); sign typing of level locals",
        "level_text": "exact static rule check over prepost_sets.cc, prepost_common.h, reach_trad.cc, satur_sets.cc, rel_node.h; decides the cross-forest, twin, flag-provenance and level-sign clauses",
        "design_ref": "DESIGN.md §2.2, §3 C09",
        "level_note": "trusts clang 14 CFGs and the role table of compute() parameters",
    },
    "C10": {
        "title": "Copying between forests preserves the function",
        "rules": [rules_ftype.rule_mix_copy, callers_for("C10"), on_program(rules_level.rule_next_level), on_program(rules_dispatch.rule_copy_factory), on_program(rules_dispatch.rule_case_scalar), on_program(rules_dispatch.rule_copy_width), on_program(rules_dispatch.rule_identity_expansion), on_program(rules_dispatch.rule_special_terminal)],
        "explanation": STRUCTURAL + ". C10: cross-forest clause — copy_MT, copy_EV_fast, copy_EV<…> read only the source forest and build only in the target forest (copy_inforest: one forest by construction); "
                       "every value placed in the copy comes from the conversion of a source value, never from the target's transparent edge (who-may-call table for getTransparentEdge / getTransparentNode); level discipline of the copy recursion; the factory constructs each copy implementation only for the forest pairs it was written for (same object / MT source / same edge operation and range / matching edge type); under each case of a terminal / range / edge-type switch the value passes through a scalar of that case's family, read at the source's own width (defect D16). Round 7: the +infinity terminal of an EV+ / index-set source must be told apart before an accumulated edge value is turned into a terminal (known finding).",
        "assumptions": ["scalar conversions and round-trip identity are not decided", "terminal handles are treated as forest independent"],
        "technique": "forest-indexed typing of node handles over clang CFGs; who-may-call table over the resolved call graph; sign typing of level locals",
        "level_text": "exact static rule check over operations/copy.cc (all instantiations) and the callers of the transparent-edge getters; decides the cross-forest, value-provenance and level-sign clauses only",
        "design_ref": "DESIGN.md §2.2, §3 C10",
        "level_note": "trusts clang 14 CFGs and the role table of compute() parameters",
    },
    "C12": {
        "title": "Results do not depend on storage, memory-manager or deletion policy",
        "rules": [on_program(rules_storage.rule_chunkptr), on_program(rules_storage.rule_layout), callers_for("C12"), on_program(rules_canon.rule_hash),
                  on_program(rules_sibling.rule_small_hole_threshold), on_program(rules_storage.rule_threshold_first), on_program(rules_sibling.rule_large_hole_threshold), on_program(rules_storage.rule_singleton_scan), on_program(rules_storage.rule_coalesce), on_program(rules_storage.rule_link_symmetry)],
        "explanation": STRUCTURAL + ". C12: threshold clauses of the hole managers (the small-hole threshold is the same quantity at every site; the large-hole threshold is raised before the holes are re-classified against it), stale-chunk-pointer clause (a pointer from getChunkAddress is not used after a call that can reach requestChunk — a bug of exactly that shape shows under the reallocating managers and not under malloc style) "
                       "and layout clause (full-only, sparse-only and either-form writers and readers of a packed node agree on the region bases and on the hash recipe, so the storage flag cannot change what is read back). Round 8: the coalescing protocol of the hole managers, including that the heap manager's current hole follows a merged hole (seed C12d).",
        "assumptions": ["the relational statement itself (same results under every policy combination) is a hyper-property over configurations and is not decided",
                        "uses of a chunk pointer are seen only where they occur in exported events (call arguments, stores, conditions, initialisers)"],
        "technique": "def-use path rule over clang CFGs combined with call-graph reachability of requestChunk; accessor-by-accessor comparison of region-base expressions",
        "level_text": "exact static rule check over storage/simple.cc and storage/ct_styles.cc (all instantiations); decides the two structural clauses named, not policy independence as such",
        "design_ref": "DESIGN.md §2.10, §2.6, §3 C12",
        "level_note": "trusts clang 14 CFGs and call resolution; region bases are compared as normalised expressions (count names unified)",
    },
    "C13": {
        "title": "Variable reordering preserves every function and every held edge",
        "rules": [callers_for("C13"), on_program(rules_layer.rule_cache_before_rewrite), on_program(rules_layer.rule_exchange_once),
                  on_program(rules_sibling.rule_swap_loops), rules_own.rule_own_swap, on_program(rules_level.rule_index_kind), on_program(rules_level.rule_array_extent), on_program(rules_life.rule_copy_memberwise), on_program(rules_sibling.rule_heap_pop_order)],
        "explanation": STRUCTURAL + ". C13: in-place rewrite/relabel/handle-swap primitives are reachable only from the adjacent-swap routines; every root of the reordering "
                       "call cone clears the compute tables first; a swap routine that relabels levels exchanges the variable order exactly once; level numbers and variable numbers are kept apart "
                       "(what getVarByLevel returns goes only where a variable is expected, what getLevelByVar/getNodeLevel/getLevel return only where a level is expected — they differ exactly after a reordering); an array indexed by level / variable numbers has getNumVariables()+1 elements (defect D13 in six of the eight heuristics); the variable-order object is copied member by member from the members of the same name.",
        "assumptions": ["function preservation under the eight schedules is not decided", "swapAdjacentVariables called directly by a user (documented driver-only primitive) is outside the cone roots"],
        "technique": "who-may-call tables over the resolved call graph; CFG dominance (cache clear before first reordering call); exactly-once path rule; index-kind typing (level vs variable) of int locals and argument positions",
        "level_text": "exact static rule check over the whole-program call graph and the CFGs of the reordering entry points; decides the invalidation/rewrite/relabel disciplines that reordering correctness needs, not function preservation itself",
        "design_ref": "DESIGN.md §2.5, §3 C13",
        "level_note": "trusts clang 14 call resolution (virtual calls expanded to all overriders) and the caller table in lib/rules_layer.py",
    },
    "C14": {
        "title": "Writing functions to an exchange file and reading them back is lossless",
        "rules": [on_program(r) for r in rules_codec.RULES] + [rules_own.rule_own_reader],
        "explanation": STRUCTURAL + ". C14: format agreement of every writer/reader pair (type letters, boolean letters, `n` marker, terminals decoded from / encoded to handles, section order and guards of a node record, "
                       "file keywords, forest code characters, variable order of the domain record) and the reader's reference-count discipline. Round 8: both text writers map the format letters of put(double, …) to one notation each, and to the same ones (seed C14d).",
        "assumptions": ["numeric precision of printed reals and bottom-up numbering of every graph are not decided", "ownership parked in the reader's local vector is untracked by the own engine (container token not modelled)"],
        "technique": "writer/reader signature extraction from clang CFG facts (switch-case tables, literals, section and traversal order) and comparison of the two sides; ownership typing of the reader",
        "level_text": "exact static rule check over the four writer/reader pairs of the exchange format and the domain record; decides format agreement and the reader's link/unlink discipline, not the round trip as such",
        "design_ref": "DESIGN.md §2.6, §2.1, §3 C14",
        "level_note": "trusts clang 14 CFGs and expression printing; literals are taken from the resolved AST of the named functions",
    },
    "C15": {
        "title": "Index sets number the members of a set 0..n-1 in lexicographic order",
        "rules": [rules_orphan.rule_terminal_root, rules_orphan.rule_level_sync, on_program(rules_codec.rule_header_type), rules_orphan.rule_index_width, on_program(rules_sibling.rule_getelem_twins), on_program(rules_codec.rule_header_written)],
        "explanation": STRUCTURAL + ". C15: the lookup-failure clause (an index lookup that runs into a terminal must fail, not unpack it), the level-synchronisation clause (a node is unpacked as the node of level k only after its level was compared with k: index sets skip the level of a single-valued variable — defect D15) and the cardinality-header clauses (every accessor of the index-set cardinality header uses one element type; every index-set node built by the conversion has its header written before it is reduced — \"the stored cardinalities equal the true member counts\" needs at least that).",
        "assumptions": ["the numbering itself (offsets accumulated as edge values) is not decided"],
        "technique": "def-to-use path rule over clang CFGs (non-terminal arm of a handle test must be crossed before unpacking); writer/reader element-type agreement",
        "level_text": "exact static rule check on dd_edge::getElemInt/getElemLong and on the accessors of the index-set cardinality header; decides the lookup-failure and header-type clauses only",
        "design_ref": "DESIGN.md §2.4 (guard.terminal-root), §2.6 (codec.layout header type), §3 C15",
        "level_note": "trusts clang 14 CFGs; accepted non-terminal tests are enumerated in lib/rules_orphan.py",
    },
    "C16": {
        "title": "Misuse is rejected with the documented error and leaves all functions intact",
        "rules": [on_program(r) for r in rules_guard.RULES] + [rules_ftype.rule_entry, rules_orphan.rule_orphan, rules_orphan.rule_iterator_init,
                  # "use of an edge whose forest was destroyed raises an error" rests on the registry discipline
                  on_program(rules_life.rule_forest_dtor), on_program(rules_life.rule_unregister), on_program(rules_life.rule_registry), on_program(rules_life.rule_op_registration), on_program(rules_guard.rule_partial_shortcut), on_program(rules_layer.rule_result_by_value)],
        "explanation": STRUCTURAL + ". C16: every misuse named by the property has a check that dominates the dangerous use and throws the documented code: constructor-chain "
                       "domain/shape checks, zero-divisor and infinity tests, terminal overflow, value type, null operation, exhausted iterator. Round 8: an operation registers itself in every forest it stores, so destroying any of them destroys the operation and a forest re-created at the same address cannot meet a stale operation that skips the constructor checks (seed C16d).",
        "assumptions": ["state after an error thrown mid-recursion (partially built results) is not decided", "only the enumerated entry points and partial operations are covered"],
        "technique": "must-check dominance over clang CFGs (guard test with a throwing arm dominates the sink); rule instances enumerated from the class hierarchy",
        "level_text": "exact static rule check: for each enumerated entry point / partial operation, every path to the dangerous use passes a test whose failing arm throws MEDDLY::error with the documented code; decides presence and placement of the checks, not the state after unwinding",
        "design_ref": "DESIGN.md §2.4, §3 C16",
        "level_note": "trusts clang 14 CFGs; the error code oracle is the enumerator named in the property's anchors",
    },
    "C17": {
        "title": "Library, domain and forest lifecycles are safe in any order",
        "rules": [on_program(r) for r in rules_life.RULES] + [callers_for("C17"), on_program(rules_layer.rule_edge_fields),
                  rules_orphan.rule_orphan, rules_orphan.rule_iterator_init, rules_ftype.rule_entry],
        "explanation": STRUCTURAL + ". C17: teardown order in ~forest, registry discipline (ids never reused), init/cleanup pairing, "
                       "entry-type destruction pairing, factories forgetting destroyed operations, null-forest guards on detached edges.",
        "assumptions": ["clang 14 CFG is faithful", "virtual calls resolved to all overriders", "interleavings of destroy with populated monolithic tables beyond these ordering facts are not decided"],
        "technique": "must-pass-through and ordering rules over clang CFGs; who-may-write table for the forest registry",
        "level_text": "exact static rule check: on every normal path of ~forest, unregisterForest, registerForest, domain::destroy, initialize/cleanupLibrary and of every operation constructor/destructor the teardown, registry and pairing disciplines hold; decides those orderings, not arbitrary interleavings at run time",
        "design_ref": "DESIGN.md §2.8, §2.4 (guard.orphan), §3 C17",
        "level_note": "trusts the clang 14 front end/CFG and the rule tables in lib/rules_life.py; virtual calls are expanded to all overriders",
    },
    "C11": {
        "title": "Enumeration and counting agree with the function",
        "rules": [on_program(rules_level.rule_fold_zeros), on_program(rules_level.rule_card_skipped), on_program(rules_level.rule_mark_once), on_program(rules_level.rule_next_level),
                  rules_orphan.rule_iterator_init, on_program(rules_eval.rule_iter_advance)],
        "explanation": STRUCTURAL + ". C11: counting clauses only. Cardinality: the sparse scan is a plain sum in which handle 0 contributes the literal 0 (all three result types instantiate one template); a level the diagram skips "
                       "multiplies the count by the size of that level on every path except primed levels of identity-reduced forests; level 0 counts 1; the next level follows the set/relation dispatch. "
                       "Node and edge counts: the marker queues a handle only if it is a non-terminal not yet marked and marks it first (each reachable node explored once), the packed-node walker offers every stored child, "
                       "countEdges / countNonzeroEdges unpack FULL / SPARSE and sum the sizes of the marked nodes. Iterators: the fields every accepted end-of-iteration guard rests on are initialised together; each advance step of next() touches the cursor, position, minterm entry and edge value of one variable on one side, continues the edge value from the level above on the other side, restarts the right first_* routine below, and running out of steps sets atEnd.",
        "assumptions": ["the order, multiplicity and values reported by the iterators (first/next with masks) are run-time sequences: not decided", "that scaleBy multiplies and addTo adds in each result type is read from the policy bodies only as 'branch-free'",
                        "counts are decided structurally, not numerically"],
        "technique": "must-pass-through and guard-edge dominance over clang CFGs of card_templ::_compute, node_marker::addToQueue and the storage walker; policy-body inspection (branch-free accumulate); constructor/mode agreement of the two edge counters",
        "level_text": "exact static rule check over all instantiations of card_templ::_compute, node_marker's queueing and counting functions and the iterator constructors; decides structural necessary conditions of the counting clauses, not enumeration order",
        "design_ref": "DESIGN.md §3 C11 (as built)",
        "level_note": "trusts clang 14 CFGs; the enumeration clauses of C11 stay undecided and are listed under assumptions",
    },
    "C20": {
        "title": "Saturation over a partitioned relation equals reachability over its union",
        "rules": [on_program(rules_level.rule_diag_fold_total), rules_ftype.rule_mix_satur_events, on_program(rules_level.rule_position_kind), on_program(rules_guard.rule_flags_binding), rules_orphan.rule_event_level, on_program(rules_level.rule_identity_needs_rule), on_program(rules_level.rule_saturation_provenance)],
        "explanation": STRUCTURAL + ". C20: cross-forest clause only — in saturation by events / by levels (sat_pregen.cc: saturate, saturateHelper and recFire of the forward and backward variants) and in the relation splitter and event bookkeeping (sat_relations.cc: splitMxd, findConfirmedStates, …) "
                       "every node handle is used only with the forest it belongs to (state-set forest, relation forest, result forest), on every path; and the position / value clause: where these functions walk a sparsely unpacked relation node, the position z and the value index(z) are kept apart (the identity pattern for a tested-but-unchanged variable is built for the value); and the overload clause: a storage-flag constant binds to a storage-flag parameter in the overload clang resolved (defect D18 in the relation splitter). Rounds 6-7: every identity expansion of a skipped relation level is governed by the forest's reduction rule or the relation class narrows its forest (3 known findings); the start level and the level of every created-then-saturated node derive from parameters or the domain's top level, never from an operand node (seed C20b; 1 known finding).",
        "assumptions": ["that the fixed point computed equals reachability under the union of the events is algorithmic semantics and is not decided", "the ownership engine is not armed in these files (they use the older compute-table idioms it does not model)",
                        "handles read from compute-table results are untyped until linked with a forest"],
        "technique": "forest-indexed typing of node handles (path-sensitive dataflow over clang CFGs, symbols = forest members of the operation / relation classes)",
        "level_text": "exact static rule check over every function of sat_pregen.cc and sat_relations.cc that pairs a handle with a forest; decides the cross-forest clause only",
        "design_ref": "DESIGN.md §2.2, §3 C20 (as built)",
        "level_note": "trusts clang 14 CFGs and the role tables of tool/msa/ftype.cc; the equality-of-fixed-points statement itself stays undecided",
    },
    "C18": {
        "title": "Memory managers never hand out overlapping or corrupted chunks",
        "rules": [on_program(rules_storage.rule_coalesce), on_program(rules_storage.rule_serve), on_program(rules_storage.rule_threshold_first), on_program(rules_sibling.rule_small_hole_threshold), on_program(rules_sibling.rule_large_hole_threshold), on_program(rules_storage.rule_link_symmetry)],
        "explanation": STRUCTURAL + ". C18: hole-bookkeeping clauses of the three hole-based managers (array+grid, original grid, heap). Coalescing protocol of recycleChunk: the freed chunk is tagged as a hole before any neighbour is tested; "
                       "a neighbouring hole leaves the manager's tracked set before `numSlots += getHoleSize(neighbour)` (the heap manager's current hole, which is in neither structure, excepted); the grown hole is re-tagged before it is used; and the final hole "
                       "enters the tracked set on every path except the array-end give-back. Serving protocol of requestChunk (grid managers): a returned hole was untracked first (or is fresh array space); a surplus is cut off with clearHole at the request size and then handed to recycleChunk. Classification: the large-hole threshold is raised before holes are re-classified against it, and the small-hole threshold is one quantity at every site. "
                       "Link symmetry (both grid managers): a function that stores one direction of a chain or column link (Next(a)=b, Up(a)=b) stores the opposite one (Prev(b)=a, Down(b)=a) too — a stale back link makes a later unlink rewire the wrong neighbour, and the chain then runs into a chunk that was handed out. "
                       "Each is a necessary condition of 'no overlapping chunk, a chunk at least as large as requested': a neighbour that stays tracked after being absorbed, or a hole classified against a stale threshold, is served without a size check.",
        "assumptions": ["non-overlap and content preservation over arbitrary request/recycle sequences is a heap-shape invariant over run-time addresses and is not decided as such",
                        "the malloc-style and free-list managers have no coalescing and are outside these rules", "the vocabulary of track / untrack functions per manager is a table confirmed by reading (lib/rules_storage.py COALESCE_VOCAB)"],
        "technique": "typestate-style must-precede / must-follow path rules with guard-edge exceptions over the clang CFGs of recycleChunk / requestChunk; twin comparison of the threshold tests",
        "level_text": "exact static rule check over recycleChunk and requestChunk of array_plus_grid, original_grid and heap_manager (one instantiation each; the template bodies are identical across slot types); decides structural necessary conditions only",
        "design_ref": "DESIGN.md §3 C18 (as built)",
        "level_note": "trusts clang 14 CFGs and the per-manager vocabulary table",
    },
    "C19": {
        "title": "Values survive encoding into terminals and edge values",
        "rules": [on_program(rules_guard.rule_int_overflow), on_program(rules_guard.rule_edge_for_value), on_program(rules_guard.rule_zero_of_stored), on_program(rules_codec.rule_terminal_codec), on_program(rules_codec.rule_tokens)],
        "explanation": STRUCTURAL + ". C19: range-guard clause (the stored long value itself is tested against intMin()/intMax(), which fold to the documented 31-bit bounds, before the flag bit is set; a value of the wrong range type is rejected; the EV* zero edge is chosen by testing the edge value as stored, after narrowing) "
                       "and codec-agreement clause (flag bit, shift amounts, zero/false ↔ handle 0, boolean coding agree between encoder and decoder; type letters agree between writer and reader).",
        "assumptions": ["recovery of all 2^32 bit patterns is not decided (value enumeration is execution)", "sizeof(node_handle) == 4 as in the analysed build"],
        "technique": "must-check dominance over clang CFGs with constant folding of the bounds; encoder/decoder signature comparison (shift/or events, switch-case tables)",
        "level_text": "exact static rule check over terminal::{getIntegerHandle,getRealHandle,getHandle,setFromHandle,msb,intMin,intMax,read,write}, edge_value::{read,write} and forest::getEdgeForValue; decides the range-guard and codec-agreement clauses",
        "design_ref": "DESIGN.md §2.4, §2.6, §3 C19",
        "level_note": "trusts clang 14 constant evaluation and CFGs",
    },
}

_PENDING ="check under construction in this round (planned rules: DESIGN.md §3); not claimed until it runs"
NOT_APPLICABLE = {
}
for _p in ("C01", "C02", "C03", "C04", "C05", "C06", "C07", "C08", "C09", "C10", "C11", "C12", "C13", "C14", "C15", "C16", "C18", "C19", "C20"):
    if _p not in PROPS:
        NOT_APPLICABLE[_p] = _PENDING
