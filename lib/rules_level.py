"""level — sign discipline of level arithmetic in the recursive operations (found by seed round 2: defect D11).

Relation forests number their levels k (unprimed) and -k (primed); "the level below" is MXD_levels::downLevel(k)
(k -> -k -> k-1), while for sets it is MDD_levels::downLevel(k) = k-1.  Every operation that may run on a
relation forest therefore computes its recursion level in one of three ways, and the rule accepts exactly those:

  kind-dispatch   F->isForRelations() ? MXD_levels::downLevel(X) : MDD_levels::downLevel(X)      (same X in both arms)
  relation-only   MXD_levels::downLevel(X)
  set-style       MDD_levels::downLevel(X)  or  X - 1     — only when X is >= 0 on every path to the site (decided when X is a
                  local the function itself defines from level helpers; parameters and loop counters are the caller's contract):
                  X comes from ABS / unprimedOfLevel / topUnprimed / MAX with such a value, from getNodeLevel of a forest the
                  constructor requires to be a SET forest, is the level parameter of an operation whose result forest is a SET,
                  or is `c ? <non-negative> : <anything>` and the site is dominated by the true edges of all atoms of c.

A set-style step on a level that may be primed walks *up* the diagram (‑k ‑ 1 = ‑(k+1)): copy_MT::_compute did that
when called at a primed level with relation nodes enabled (D11)."""
import re

from cfg import Graph, show_path
from core import Finding, RuleResult
from frontend import AnalysisBroken, where, base_name

M = "MEDDLY::"
NONNEG_CALLS = ("ABS", "MXD_levels::unprimedOfLevel", "MXD_levels::topUnprimed", "MDD_levels::topLevel")


def _nz(t):
    return re.sub(r"\s+", "", re.sub(r"this->", "", t or ""))


def _strip(t):
    while t.startswith("(") and t.endswith(")"):
        d = 0
        ok = True
        for i, ch in enumerate(t):
            d += ch == "("
            d -= ch == ")"
            if d == 0 and i < len(t) - 1:
                ok = False
                break
        if not ok:
            break
        t = t[1:-1]
    return t


def _split_top(t, sep):
    out, d, cur, i = [], 0, "", 0
    while i < len(t):
        ch = t[i]
        if ch in "([":
            d += 1
        elif ch in ")]":
            d -= 1
        if d == 0 and t.startswith(sep, i):
            out.append(cur)
            cur = ""
            i += len(sep)
            continue
        cur += ch
        i += 1
    out.append(cur)
    return out


def _ternary(t):
    """(cond, a, b) for a top-level `cond ? a : b`, else None"""
    d = 0
    q = -1
    for i, ch in enumerate(t):
        if ch in "([":
            d += 1
        elif ch in ")]":
            d -= 1
        elif ch == "?" and d == 0:
            q = i
            break
    if q < 0:
        return None
    d = 0
    nest = 0
    for j in range(q + 1, len(t)):
        ch = t[j]
        if ch in "([":
            d += 1
        elif ch in ")]":
            d -= 1
        elif ch == "?" and d == 0:
            nest += 1
        elif ch == ":" and d == 0 and t[j - 1] != ":" and (j + 1 >= len(t) or t[j + 1] != ":"):
            if nest == 0:
                return t[:q], t[q + 1:j], t[j + 1:]
            nest -= 1
    return None


def _call(t):
    m = re.match(r"^([\w:>.-]+)\((.*)\)$", t)
    if not m:
        return None
    # the closing parenthesis must match the opening one
    d = 0
    for i, ch in enumerate(t[len(m.group(1)):]):
        d += ch == "("
        d -= ch == ")"
        if d == 0 and i < len(t) - len(m.group(1)) - 1:
            return None
    return m.group(1), _split_top(m.group(2), ",")


class Signs:
    """abstract sign of level expressions in one function: 'U' (>= 0), ('C', frozenset(atoms)) (>= 0 when all atoms hold), 'S' (either sign)"""

    def __init__(self, f, g, kinds):
        self.f, self.g, self.kinds = f, g, kinds
        self.defs = {}
        for n in g.nodes:
            if n.kind == "ldef" and n.ev.get("rhs") is not None and not n.ev.get("ptr") and n.ev.get("op", "=") in ("=", None):
                self.defs.setdefault(n.ev["var"], []).append(_nz(n.ev["rhs"]))
        self.modified = {n.ev["var"] for n in g.nodes if n.kind == "ldef" and n.ev.get("op") not in ("=", None)}
        ps = f.get("params", [])
        self.level_param = ps[0]["name"] if ps and f.get("sig", "").startswith("(int") else None
        self.busy = set()

    def atoms(self, text, depth=0):
        out = set()
        for a in _split_top(_strip(_nz(text)), "&&"):
            a = _strip(a)
            if re.match(r"^\w+$", a) and len(self.defs.get(a, [])) == 1 and a not in self.modified and depth < 4:
                out |= self.atoms(self.defs[a][0], depth + 1)
            else:
                out.add(a)
        return out

    def sign(self, t):
        t = _strip(_nz(t))
        m = re.match(r"^(?:int|unsigned|long)\((.*)\)$", t)
        if m and _call(t):
            return self.sign(m.group(1))
        if re.match(r"^\d+$", t):
            return "U"
        tern = _ternary(t)
        if tern:
            c, a, b = tern
            sa, sb = self.sign(a), self.sign(b)
            if sa == "U" and sb == "U":
                return "U"
            if sa == "U":
                return ("C", frozenset(self.atoms(c)))
            return "S" if "S" in (sa, sb) else "P"
        cl = _call(t)
        if cl:
            head, args = cl
            if head in NONNEG_CALLS:
                return "U"
            if head == "MAX":
                ss = [self.sign(a) for a in args]
                return "U" if "U" in ss else "S" if "S" in ss else "P"
            m = re.match(r"^(\w+)->getNodeLevel$", head)
            if m:
                return "U" if self.kinds.get(m.group(1)) == "SET" else "S"
            if head.endswith("getNumVariables") or head.endswith("getMaxLevelIndex"):
                return "U"
            if head in ("MXD_levels::downLevel", "MXD_levels::upLevel"):
                return "S"
            return "P"
        if re.match(r"^\w+$", t):
            if t in self.busy:
                return "P"
            if t in self.defs and any(re.search(r"(?<!\w)%s(?!\w)" % re.escape(t), d) for d in self.defs[t]):
                return "P"   # loop-carried: its sign is the loop's invariant
            if t in self.defs and t not in self.modified:
                self.busy.add(t)
                ss = {self.sign(d) for d in self.defs[t]}
                self.busy.discard(t)
                if ss == {"U"}:
                    return "U"
                if len(ss) == 1:
                    return next(iter(ss))
                return "S" if "S" in ss else "P"
            if t == self.level_param and self.kinds.get("resF") == "SET" and t not in self.defs:
                return "U"
        # parameters, loop counters, levels read from unpacked nodes: their sign is the caller's / the loop's contract
        return "P"


def _class_kinds(P):
    """forest member -> SET / RELATION as required by the constructor's checkRelations(file, line, …) call"""
    kinds = {}
    for f in P.fns.values():
        if not f.get("ctor") or not f.get("cfg"):
            continue
        for b in f["cfg"]["blocks"]:
            for ev in b["ev"]:
                if ev["k"] == "call" and ev["q"].endswith("::checkRelations"):
                    a = [x.strip() for x in ev["args"][2:]]
                    names = ("arg1F", "arg2F", "resF") if len(a) == 3 else ("argF", "resF")
                    if len(a) == len(names):
                        kinds[f["cls"]] = dict(zip(names, a))
    return kinds


STEP = re.compile(r"(MDD_levels::downLevel\((?P<a>[^()]+)\))|(?<![\w)])(?P<b>[A-Za-z_]\w*)-1(?!\d)")
DISPATCH = re.compile(r"isForRelations\(\)\?MXD_levels::downLevel\(([^()]+)\):MDD_levels::downLevel\(([^()]+)\)")


def rule_next_level(P):
    R = RuleResult("level.next-level", "every recursion level computed set-style (MDD_levels::downLevel(X) or X-1) in an operation is computed from a level that is non-negative on every path to that site, or under the F->isForRelations() dispatch with MXD_levels::downLevel in the other arm")
    kinds = _class_kinds(P)
    n_dispatch = n_set = n_contract = 0
    seen = set()
    for f in sorted(P.fns.values(), key=lambda f: (f["file"], f["line"], f["inst"])):
        if not f.get("cfg") or not (f["file"].startswith("operations/") or f["file"] in ("forest.cc", "forest.h")):
            continue
        if (f["file"], f["line"]) in seen and "<" not in f["inst"]:
            continue
        seen.add((f["file"], f["line"]))
        g = Graph(f)
        sg = None
        level_like = None
        for n in g.nodes:
            texts = []
            if n.kind == "ldef" and n.ev.get("rhs"):
                texts.append(_nz(n.ev["rhs"]))
            elif n.kind == "call":
                texts += [_nz(a) for a in n.ev.get("args", [])]
            for t in texts:
                if "downLevel" not in t and "-1" not in t:
                    continue
                rest = t
                for m in DISPATCH.finditer(t):
                    iid = "%s: kind dispatch on %s" % (f["inst"].replace(M, "")[:70], m.group(1))
                    n_dispatch += 1
                    if m.group(1) == m.group(2):
                        R.ok(iid, where(f, n.line))
                    else:
                        R.fail(iid, where(f, n.line), Finding(R.rule, f["file"], base_name(f["q"]), "dispatch@%s" % m.group(1),
                               "the relation arm steps down from `%s` but the set arm from `%s`" % (m.group(1), m.group(2)), n.line, inst=f["inst"]))
                    rest = rest.replace(m.group(0), "")
                for m in STEP.finditer(rest):
                    x = m.group("a") or m.group("b")
                    if sg is None:
                        sg = Signs(f, g, kinds.get(f.get("cls"), {}))
                        # variables that hold levels: defined from level helpers, or the level parameter
                        level_like = {v for v, ds in sg.defs.items() if any(re.search(r"getNodeLevel|_levels::|topLevelOf|getLevel\(\)", d) for d in ds)}
                        changed = True
                        while changed:
                            changed = False
                            for v, ds in sg.defs.items():
                                if v not in level_like and any(re.fullmatch(r"\w+", _strip(d)) and _strip(d) in level_like for d in ds):
                                    level_like.add(v)
                                    changed = True
                        if sg.level_param:
                            level_like.add(sg.level_param)
                    if m.group("b") and x not in level_like:
                        continue
                    n_set += 1
                    R.functions.add(f["inst"])
                    R.paths += 1
                    s = sg.sign(x)
                    if s == "P":
                        n_contract += 1
                        n_set -= 1
                        R.paths -= 1
                        continue
                    iid = "%s: set-style step from `%s` (%s)" % (f["inst"].replace(M, "")[:70], x, m.group(0))
                    if s == "U":
                        R.ok(iid, where(f, n.line))
                        continue
                    why = "may be a primed (negative) relation level"
                    if isinstance(s, tuple):
                        need = set(s[1])
                        missing = []
                        for a in sorted(need):
                            held = False
                            for b in g.nodes:
                                if b.kind != "branch" or not b.cond or len(b.succ) != 2:
                                    continue
                                if a not in sg.atoms(b.cond["text"]):
                                    continue
                                ti = 1 if b.cond.get("neg") else 0
                                if g.path(g.entry, lambda k, n=n: k.id == n.id, avoid_edge=lambda k, i, b=b, ti=ti: k.id == b.id and i != ti) is None or \
                                        n.id not in g.reach([g.entry], avoid_edge=lambda k, i, b=b, ti=ti: k.id == b.id and i == ti):
                                    held = True
                                    break
                            if not held:
                                missing.append(a)
                        if not missing:
                            R.ok(iid + " under " + " && ".join(sorted(need)), where(f, n.line))
                            continue
                        why = "is non-negative only when `%s` holds, and `%s` is not established on every path to this site" % (" && ".join(sorted(need)), " && ".join(missing))
                    R.fail(iid, where(f, n.line), Finding(R.rule, f["file"], base_name(f["q"]), "step@%s" % x,
                           "`%s` steps to the next level set-style, but `%s` %s: from a primed level -k this yields -(k+1), one level *up*, and the recursion builds a malformed result" % (m.group(0), x, why), n.line, inst=f["inst"]))
    R.notes.append("%d kind-dispatch sites, %d set-style sites decided; %d set-style sites step from a parameter / loop counter / unpacked node's level whose sign is a caller contract (not decided)" % (n_dispatch, n_set, n_contract))
    if n_dispatch < 15 or n_set < 4:
        raise AnalysisBroken("level.next-level: expected ≥15 kind-dispatch and ≥4 set-style next-level sites, found %d / %d" % (n_dispatch, n_set))
    R.require_floor(20, "next-level computations")
    return R


def _class_ranges(P):
    """operation class -> range type the constructor requires of all its forests (checkAllRanges(file, line, range_type::X))"""
    out = {}
    for f in P.fns.values():
        if not f.get("ctor") or not f.get("cfg"):
            continue
        for b in f["cfg"]["blocks"]:
            for ev in b["ev"]:
                if ev["k"] == "call" and ev["q"].endswith("::checkAllRanges") and len(ev["args"]) >= 3:
                    m = re.search(r"range_type::(\w+)", ev["args"][2])
                    if m:
                        out[f["cls"]] = m.group(1)
    return out


def rule_terminal_type(P):
    """a terminal built from a truth value inside an operation encodes BOOLEAN unless it is given the terminal type of the forest it goes to:
    the handle of `terminal(true)` is -1, which an INTEGER forest reads as -1 and a REAL forest as NaN (seed C05b)"""
    R = RuleResult("range.terminal-type", "every terminal an operation builds from a truth value carries the terminal type of its result forest (terminal(v, resF->getTerminalType())), unless the operation's constructor requires all forests to be BOOLEAN")
    ranges = _class_ranges(P)
    ops = P.subclasses(M + "operation") if hasattr(P, "subclasses") else set()
    n = 0
    for f in sorted(P.fns.values(), key=lambda f: (f["file"], f["line"], f["inst"])):
        if not f.get("cfg") or not f["file"].startswith("operations/") or not f.get("cls"):
            continue
        for b in f["cfg"]["blocks"]:
            for ev in b["ev"]:
                if ev["k"] != "construct" or ev.get("q") != M + "terminal::terminal" or not ev.get("sig", "").startswith("(_Bool"):
                    continue
                n += 1
                R.functions.add(f["inst"])
                R.paths += 1
                iid = "%s: terminal(%s)" % (f["inst"].replace(M, "")[:80], ", ".join(_nz(a) for a in ev["args"])[:80])
                if ev["sig"] == "(_Bool)":
                    if ranges.get(f["cls"]) == "BOOLEAN":
                        R.ok(iid + " in an all-BOOLEAN operation", where(f, ev["line"]))
                    else:
                        R.fail(iid, where(f, ev["line"]), Finding(R.rule, f["file"], base_name(f["q"]), "terminal(bool)@%s" % _nz(ev["args"][0])[:40],
                               "terminal(%s) encodes a BOOLEAN terminal, but %s does not require its result forest to be BOOLEAN: in an INTEGER or REAL result forest the handle decodes to -1 / NaN instead of 1" % (_nz(ev["args"][0]), (f["cls"] or "").replace(M, "")), ev["line"], inst=f["inst"]))
                else:
                    t = _nz(ev["args"][1]) if len(ev["args"]) > 1 else ""
                    if re.fullmatch(r"\w+", t):
                        # a local holding the type: every definition of it must be the result forest's terminal type
                        ds = [_nz(e2.get("rhs", "")) for b2 in f["cfg"]["blocks"] for e2 in b2["ev"] if e2["k"] == "ldef" and e2["var"] == t]
                        if ds and all(d == "resF->getTerminalType()" for d in ds):
                            t = "resF->getTerminalType()"
                    if re.fullmatch(r"resF->getTerminalType\(\)", t):
                        R.ok(iid, where(f, ev["line"]))
                    else:
                        R.fail(iid, where(f, ev["line"]), Finding(R.rule, f["file"], base_name(f["q"]), "terminal(bool,type)@%s" % t[:40],
                               "the terminal is encoded with `%s`, not with the result forest's terminal type" % t, ev["line"], inst=f["inst"]))
    if n < 60:
        raise AnalysisBroken("range.terminal-type: expected ≥60 truth-valued terminal constructions in the operations (compare ×6 ×2, union, complement), found %d" % n)
    R.require_floor(60, "truth-valued terminal constructions")
    return R


# ---- index kinds: level numbers and variable numbers are both plain ints, and after a reordering they differ ---------------
KIND_PRODUCERS = {"getVarByLevel": "VAR", "getLevelByVar": "LEVEL", "getNodeLevel": "LEVEL", "getLevel": "LEVEL"}
# callee base name -> {argument position: kind}
KIND_CONSUMERS = {
    "getVarByLevel": {0: "LEVEL"}, "getLevelSize": {0: "LEVEL"}, "isValidLevel": {0: "LEVEL"},
    "getLevelByVar": {0: "VAR"}, "getVariableBound": {0: "VAR"}, "getVariableSize": {0: "VAR"}, "getVar": {0: "VAR"},
    "find": {1: "VAR"},   # unique_table::find(node, var)
}
CONSUMER_CLASSES = ("forest", "domain", "varorder", "unique_table", "expert_forest", "mt_forest", "ev_forest")


def _kind(t, env, depth=0):
    t = _strip(_nz(t))
    if depth > 6 or not t:
        return None
    tern = _ternary(t)
    if tern:
        ka, kb = _kind(tern[1], env, depth + 1), _kind(tern[2], env, depth + 1)
        return ka if ka == kb else (ka or kb) if None in (ka, kb) else "MIXED"
    if t[0] == "-" and not t.startswith("--"):
        return _kind(t[1:], env, depth + 1)
    m = re.match(r"^(.*?)[+-]\d+$", t)
    if m and m.group(1) and m.group(1).count("(") == m.group(1).count(")"):
        return _kind(m.group(1), env, depth + 1)
    cl = _call(t)
    if cl:
        head, args = cl
        base = re.split(r"::|->|\.", head)[-1]
        if base in ("int", "unsigned", "long", "ABS", "size_t", "unsignedint") and len(args) == 1:
            return _kind(args[0], env, depth + 1)
        if base in KIND_PRODUCERS:
            return KIND_PRODUCERS[base]
        return None
    if re.fullmatch(r"\w+", t):
        ks = env.get(t)
        if ks and len(ks) == 1:
            return next(iter(ks))
    return None


def rule_index_kind(P):
    """a value obtained as a level (getLevelByVar, getNodeLevel, unpacked_node::getLevel) is never handed to a position that expects a
    variable number (getLevelByVar, getVariableBound, getVariableSize, domain::getVar, unique_table::find's second argument) and vice versa"""
    R = RuleResult("level.index-kind", "level numbers and variable numbers are kept apart: what getVarByLevel returns is used only where a variable is expected, what getLevelByVar / getNodeLevel / getLevel return only where a level is expected (they coincide only until the first reordering)")
    nsite = 0
    seen = set()
    for f in sorted(P.fns.values(), key=lambda f: (f["file"], f["line"], f["inst"])):
        if not f.get("cfg") or (f["file"], f["line"]) in seen:
            continue
        seen.add((f["file"], f["line"]))
        g = None
        env = None
        for b in f["cfg"]["blocks"]:
            for ev in b["ev"]:
                if ev["k"] != "call":
                    continue
                base = ev["q"].split("::")[-1]
                if base not in KIND_CONSUMERS:
                    continue
                cls = ev["q"].split("::")[-2] if ev["q"].count("::") >= 2 else ""
                if cls not in CONSUMER_CLASSES:
                    continue
                if env is None:
                    env = {}
                    defs = [e for bb in f["cfg"]["blocks"] for e in bb["ev"] if e["k"] == "ldef" and e.get("rhs") and not e.get("ptr") and e.get("op", "=") in ("=", None)]
                    for _ in range(3):
                        for e in defs:
                            k = _kind(e["rhs"], env)
                            if k:
                                env.setdefault(e["var"], set()).add(k)
                for pos, want in KIND_CONSUMERS[base].items():
                    if pos >= len(ev["args"]):
                        continue
                    got = _kind(ev["args"][pos], env)
                    if got is None:
                        continue
                    nsite += 1
                    R.functions.add(f["inst"])
                    R.paths += 1
                    iid = "%s: %s(%s) takes a %s" % (f["inst"].replace(M, "")[:70], base, _nz(ev["args"][pos])[:50], want.lower())
                    if got == want:
                        R.ok(iid, where(f, ev["line"]))
                    else:
                        R.fail(iid, where(f, ev["line"]), Finding(R.rule, f["file"], base_name(f["q"]), "%s(%s)" % (base, _nz(ev["args"][pos])[:40]),
                               "`%s` is a %s number (by how it was obtained) but %s expects a %s number: the two agree only under the initial variable order, after a reordering the wrong variable's bound / slot is used" % (
                                   _nz(ev["args"][pos]), got.lower(), base, want.lower()), ev["line"], inst=f["inst"]))
    # the forest's two conversion wrappers delegate to the variable order's method of the same name
    for f in sorted(P.fns.values(), key=lambda f: (f["file"], f["line"])):
        nm = f["q"].split("::")[-1]
        if nm not in ("getVarByLevel", "getLevelByVar") or not f.get("cfg") or not f["q"].startswith(M + "forest::"):
            continue
        other = "getLevelByVar" if nm == "getVarByLevel" else "getVarByLevel"
        calls = [e for b in f["cfg"]["blocks"] for e in b["ev"] if e["k"] == "call" and e["q"].split("::")[-1] in (nm, other)]
        iid = "forest::%s delegates to varorder::%s" % (nm, nm)
        nsite += 1
        bad = [e for e in calls if e["q"].split("::")[-1] == other]
        if calls and not bad:
            R.ok(iid, where(f))
        else:
            R.fail(iid, where(f), Finding(R.rule, f["file"], base_name(f["q"]), "delegate", "forest::%s %s" % (nm, "calls varorder::%s" % other if bad else "does not consult the variable order"), f["line"]))
    if nsite < 25:
        raise AnalysisBroken("level.index-kind: only %d typed level/variable positions found, expected ≥25" % nsite)
    R.require_floor(25, "typed level/variable argument positions")
    return R


def rule_diag_fold_total(P):
    """relation splitting: the largest common diagonal of a relation node is the INTERSECTION of the diagonal entries of ALL its rows,
    folded as `op->computeTemp(acc, x, acc)` inside a loop over the rows (the first row initialises acc with .set).  0 is absorbing for
    intersection, so an iteration that skips the fold step (an empty row passed over) leaves a diagonal that the skipped row does not have,
    and moving that diagonal to a lower level gives the skipped local state transitions the relation never had."""
    R = RuleResult("fold.diagonal-covers-rows", "in every loop that folds a common diagonal with `op->computeTemp(acc, x, acc)`, each iteration passes a fold step (that call, or the .set that initialises acc): no path from the loop body's entry back to the loop test avoids both")
    seen = set()
    n = 0
    for f in sorted(P.fns.values(), key=lambda f: (f["file"], f["line"], f["inst"])):
        if not f.get("cfg") or (f["file"], f["line"]) in seen or not (f["file"].startswith("operations/") or f["file"].startswith("sat_")):
            continue
        if not any(e["k"] == "call" and e["q"].endswith("::computeTemp") for b in f["cfg"]["blocks"] for e in b["ev"]):
            continue
        g = Graph(f)
        folds = [k for k in g.nodes if k.kind == "call" and k.ev["q"].endswith("::computeTemp") and len(k.ev.get("args", [])) == 3 and
                 _nz(k.ev["args"][0]) == _nz(k.ev["args"][2]) and "ntersect" in (k.ev.get("recv") or "")]
        for F in folds:
            acc = _nz(F.ev["args"][0])
            step = lambda k, acc=acc: (k.kind == "call" and k.ev["q"].endswith("::computeTemp") and len(k.ev.get("args", [])) == 3 and _nz(k.ev["args"][2]) == acc) or \
                                      (k.kind == "call" and k.ev["q"].endswith("dd_edge::set") and _nz(k.ev.get("recv") or "") == acc)
            best = None
            for B in g.nodes:
                if B.kind != "branch" or not B.cond or len(B.succ) != 2:
                    continue
                for s_, i in B.succ:
                    body = g.reach([s_], avoid=lambda k, B=B: k.id == B.id)
                    if F.id in body and any(t == B.id for x in body for t, _ in g.nodes[x].succ):
                        if best is None or len(body) < best[2]:
                            best = (B, s_, len(body))
            if best is None:
                continue
            seen.add((f["file"], f["line"]))
            n += 1
            R.functions.add(f["inst"])
            R.paths += 1
            B, entry, _sz = best
            iid = "%s: every iteration of the row loop at line %d folds into %s" % (base_name(f["q"]).replace(M, "")[:60], B.line, acc)
            p = None if step(g.nodes[entry]) else g.path(entry, lambda k, B=B: k.id == B.id, avoid=step)
            if p is None:
                R.ok(iid, where(f, F.line))
            else:
                skip = [k for k in p if k.kind == "branch" and k.cond]
                R.fail(iid, where(f, F.line), Finding(R.rule, f["file"], base_name(f["q"]), "fold@%s" % acc,
                       "an iteration of the row loop (line %d) can return to the loop test without folding into %s%s: the skipped row's diagonal entry (0 for an empty row, which empties the intersection) is left out of the common diagonal" % (
                           B.line, acc, (" — via the test `%s` at line %d" % (skip[0].cond["text"][:60], skip[0].line)) if skip else ""), F.line, path=show_path(p), inst=f["inst"]))
    if n < 4:
        raise AnalysisBroken("fold.diagonal-covers-rows: expected the 4 common-diagonal folds (sat_relations, transitive_closure, constrained x2), found %d" % n)
    R.require_floor(4, "common-diagonal folds")
    return R


def rule_fold_zeros(P):
    """scalar folds over a diagram (cardinality, largest / smallest value): a node unpacked SPARSE_ONLY shows only its non-zero children, so
    the implicit zero children are left out of the fold.  That is sound only when a zero child contributes the accumulator's neutral
    element: the fold's own terminal case gives the literal 0 for handle 0, and the accumulate step is a plain sum (no comparison in it)."""
    R = RuleResult("fold.covers-zeros", "a recursive scalar fold (result in an oper_item) that unpacks nodes SPARSE_ONLY gives handle 0 the literal 0 and accumulates by a branch-free sum; any other fold (minimum, maximum) unpacks FULL so that the zero children are folded in")
    n = 0
    for f in sorted(P.fns.values(), key=lambda f: (f["file"], f["line"], f["inst"])):
        if not f.get("cfg") or not f["file"].startswith("operations/"):
            continue
        res = [p_["name"] for p_ in f.get("params", []) if "oper_item" in (p_.get("rec") or "")]
        if not res:
            continue
        g = Graph(f)
        selfcalls = [k for k in g.nodes if k.kind == "call" and k.ev["q"] == f["q"] and any("down(" in a for a in k.ev.get("args", []))]
        unp = [k for k in g.nodes if k.kind == "ldef" and (k.ev.get("callq") or "").endswith("unpacked_node::newFromNode")]
        if not selfcalls or not unp:
            continue
        n += 1
        R.functions.add(f["inst"])
        R.paths += 1
        flag = _nz(unp[0].ev["rhs"]).rstrip(")").split(",")[-1]
        iid = "%s: children unpacked %s" % (f["inst"].replace(M, "")[:80], flag)
        if flag == "FULL_ONLY":
            R.ok(iid + " (every child is folded in)", where(f, unp[0].line))
            continue
        # (b) handle 0 yields the literal 0
        node_params = [p_["name"] for p_ in f.get("params", []) if p_.get("handle")]
        zero_guard = None
        for b in g.nodes:
            if b.kind == "branch" and b.cond and len(b.succ) == 2 and re.fullmatch(r"0==(\w+)|(\w+)==0|!(\w+)", _nz(b.cond["text"])):
                v = [x for x in re.fullmatch(r"0==(\w+)|(\w+)==0|!(\w+)", _nz(b.cond["text"])).groups() if x][0]
                if v not in node_params:
                    continue
                ti = 1 if b.cond.get("neg") else 0
                arm = [s_ for s_, i in b.succ if i == ti]
                seen_set = False
                k = g.nodes[arm[0]] if arm else None
                steps = 0
                while k is not None and steps < 6:
                    if k.kind == "call" and k.ev.get("args") and len(k.ev["args"]) == 2 and _nz(k.ev["args"][0]) in res and _nz(k.ev["args"][1]) in ("0", "0L", "0.0"):
                        seen_set = True
                    if k.kind == "ret":
                        break
                    k = g.nodes[k.succ[0][0]] if len(k.succ) == 1 else None
                    steps += 1
                if seen_set and k is not None and k.kind == "ret":
                    zero_guard = b
        # (c) the accumulate step: calls that take the result and the temporary; their bodies are branch-free
        temps = {k.ev["args"][-1].strip() for k in selfcalls if _nz(k.ev["args"][-1]) not in res}
        acc = [k for k in g.nodes if k.kind == "call" and len(k.ev.get("args", [])) == 2 and _nz(k.ev["args"][0]) in res and _nz(k.ev["args"][1]) in {_nz(t) for t in temps}]
        branchy = []
        def has_branch(q, depth=0):
            for cf in P.by_q.get(q, []):
                if not cf.get("cfg"):
                    continue
                if any(b_.get("cond") and len([x for x in b_["succ"] if x is not None]) >= 2 for b_ in cf["cfg"]["blocks"]):
                    return True
                if depth < 2:
                    for b_ in cf["cfg"]["blocks"]:
                        for e in b_["ev"]:
                            if e["k"] == "call" and e["q"] != q and has_branch(e["q"], depth + 1):
                                return True
            return False
        for k in acc:
            if has_branch(k.ev["q"]):
                branchy.append(k.ev["q"].replace(M, ""))
        if zero_guard is not None and acc and not branchy:
            R.ok(iid + ": handle 0 gives 0 and %s is a plain sum" % ", ".join(sorted({k.ev["q"].replace(M, "") for k in acc})), where(f, unp[0].line))
        else:
            why = []
            if zero_guard is None:
                why.append("handle 0 is not given the literal 0 by a terminal case of its own")
            if branchy:
                why.append("the accumulate step %s compares (0 is not its neutral element)" % ", ".join(sorted(set(branchy))))
            if not acc:
                why.append("no accumulate step taking the result and the temporary was recognised")
            R.fail(iid, where(f, unp[0].line), Finding(R.rule, f["file"], base_name(f["q"]), "unpack@%s" % flag,
                   "the fold visits only the non-zero children (%s) but %s: the zero entries of a node never reach the result" % (flag, "; ".join(why)), unp[0].line, inst=f["inst"]))
    # identity-reduced relations: a skipped pair of levels stands for the identity pattern — the value on the diagonal, 0 off it.  A fold whose
    # accumulate step is not a plain sum (minimum, maximum) has to fold that 0 in, which takes the level it is at and the forest's reduction rule.
    seen_t = set()
    for f in sorted(P.fns.values(), key=lambda f: (f["file"], f["line"], f["inst"])):
        if not f.get("cfg") or not f["file"].startswith("operations/") or (f["file"], f["line"]) in seen_t:
            continue
        res = [p_["name"] for p_ in f.get("params", []) if "oper_item" in (p_.get("rec") or "")]
        g = Graph(f) if res else None
        if not res or not any(k.kind == "call" and k.ev["q"] == f["q"] and any("down(" in a for a in k.ev.get("args", [])) for k in g.nodes):
            continue
        acc = [k for k in g.nodes if k.kind == "call" and len(k.ev.get("args", [])) == 2 and _nz(k.ev["args"][0]) in res and not k.ev["q"].endswith("::set") and k.ev["q"].startswith(M)]
        sums = all(k.ev["q"].split("::")[-1] in ("addTo",) for k in acc)
        seen_t.add((f["file"], f["line"]))
        if sums:
            continue
        R.paths += 1
        iid = "%s: skipped identity levels contribute their off-diagonal 0" % base_name(f["q"]).replace(M, "")[:70]
        asks = any(k.kind == "call" and k.ev["q"].endswith("isIdentityReduced") for k in g.nodes)
        if asks:
            R.ok(iid, where(f))
        else:
            R.fail(iid, where(f), Finding(R.rule, f["file"], base_name(f["q"]), "identity-skips",
                   "the scan never asks whether the forest is identity reduced and has no level to compare node levels with: levels skipped as identity patterns contribute only their diagonal value, the 0 off the diagonal never reaches the minimum / maximum", f["line"]))
    if n < 7:
        raise AnalysisBroken("fold.covers-zeros: expected the 7 scalar folds (3 cardinalities, 4 range scans), found %d" % n)
    R.require_floor(7, "scalar folds")
    return R


def rule_card_skipped(P):
    """cardinality: a level the diagram skips multiplies the count by the size of *that* level, in the arithmetic of the result type — except a
    primed level skipped in an identity-reduced relation forest (one matching value, not all) — and the fold continues with the same node below.
    The rule is written over what must hold, not over how the loop is spelled: a rewrite that scales level by level in a loop passes; one that
    first multiplies the sizes into a machine integer does not (seed C11a)."""
    R = RuleResult("card.skipped-levels", "in every instantiation of card_templ::_compute: each scaleBy multiplies by getLevelSize(k) of a level k walked down from the current level (never by a product kept in a machine integer), cannot be reached for k<=0 in an identity-reduced forest, cannot be avoided otherwise on the skipped-level path; the fold continues with the same node; level 0 counts 1")
    n = 0
    for f in sorted(P.fns.values(), key=lambda f: (f["file"], f["line"], f["inst"])):
        if not f.get("cfg") or f["file"] != "operations/cardinality.cc" or not f["q"].endswith("::_compute") or "card_templ" not in f["q"]:
            continue
        ps = f.get("params", [])
        if len(ps) < 3:
            continue
        lv, nd, rs = ps[0]["name"], ps[1]["name"], ps[2]["name"]
        g = Graph(f)
        n += 1
        R.functions.add(f["inst"])
        inst = f["inst"].replace(M, "")[:60]
        defs = {}
        for k in g.nodes:
            if k.kind == "ldef" and k.ev.get("rhs") is not None:
                defs.setdefault(k.ev["var"], []).append(k)
        # levels walked down from the current level: the parameter itself, or a local started at it and stepped by downLevel
        def walks_from_current(x, depth=0):
            if x == lv:
                return True
            ds = defs.get(x, [])
            if not ds or depth > 2:
                return False
            starts = [d for d in ds if _nz(d.ev["rhs"]) == lv or walks_from_current(_nz(d.ev["rhs"]), depth + 1) and re.fullmatch(r"\w+", _nz(d.ev["rhs"]))]
            steps = [d for d in ds if re.search(r"downLevel\(%s\)" % re.escape(x), _nz(d.ev["rhs"]))]
            return bool(starts) and len(starts) + len(steps) == len(ds)
        skip = [b for b in g.nodes if b.kind == "branch" and b.cond and len(b.succ) == 2 and b.cond.get("op") == "!=" and re.search(r"(?<!\w)%s(?!\w)" % lv, b.cond["text"]) and
                (any(c.endswith("getNodeLevel") for c in b.cond["calls"]) or any(any("getNodeLevel" in _nz(d.ev["rhs"]) for d in defs.get(r_, [])) for r_ in b.cond.get("refs", [])))]
        if not skip:
            raise AnalysisBroken("card.skipped-levels: no `<level of %s> != %s` test in %s" % (nd, lv, f["inst"]))
        b = skip[0]
        ti = 1 if b.cond.get("neg") else 0
        first = [s_ for s_, i in b.succ if i == ti]
        arm = g.reach(first, avoid=lambda k: k.kind == "ret") - g.reach([s_ for s_, i in b.succ if i != ti])
        rec = [k for k in g.nodes if k.id in arm and k.kind == "call" and k.ev["q"] == f["q"]]
        iid = "%s: the skipped-level path continues the fold with the same node" % inst
        R.paths += 1
        if rec and all(_nz(k.ev["args"][1]) == nd and _nz(k.ev["args"][2]) == rs for k in rec):
            R.ok(iid, where(f, rec[0].line))
        else:
            R.fail(iid, where(f, b.line), Finding(R.rule, f["file"], base_name(f["q"]), "skip-recursion", "on the skipped-level path the fold must call itself on (%s, %s); found %s" % (nd, rs, [k.ev["args"] for k in rec]), b.line, inst=f["inst"]))
        scales = [k for k in g.nodes if k.id in arm and k.kind == "call" and k.ev["q"].endswith("::scaleBy")]
        if not scales:
            R.paths += 1
            R.fail("%s: skipped levels are scaled" % inst, where(f, b.line), Finding(R.rule, f["file"], base_name(f["q"]), "no-scale", "the skipped-level path never calls scaleBy: every skipped level counts as a single value", b.line, inst=f["inst"]))
            continue
        pos_b = lambda x: [k for k in g.nodes if k.kind == "branch" and k.cond and len(k.succ) == 2 and _nz(k.cond["text"]).lstrip("!") in ("%s>0" % x, "0<%s" % x)]
        idr_b = [k for k in g.nodes if k.kind == "branch" and k.cond and len(k.succ) == 2 and any(c.endswith("isIdentityReduced") for c in k.cond["calls"])]
        atom_edge = lambda k: 1 if k.cond.get("neg") else 0        # edge on which the un-negated atom holds
        for sc in scales:
            a0, a1 = _nz(sc.ev["args"][0]), _nz(sc.ev["args"][1])
            R.paths += 1
            iid = "%s: scaleBy(%s, %s) multiplies by the size of one walked level, in the result type" % (inst, a0, a1)
            m = re.fullmatch(r"argF->getLevelSize\((\w+)\)", a1)
            if a0 != rs:
                raise AnalysisBroken("card.skipped-levels: scaleBy in %s does not scale the result parameter" % f["inst"])
            if not m:
                if re.fullmatch(r"\w+", a1) and any(d.ev.get("op") in ("*=",) for d in defs.get(a1, [])):
                    R.fail(iid, where(f, sc.line), Finding(R.rule, f["file"], base_name(f["q"]), "scale-product",
                           "the count is scaled by `%s`, a product of level sizes accumulated in a machine integer: once a run of skipped levels multiplies past its range the factor wraps, whatever the result type (double, arbitrary precision) could hold" % a1, sc.line, inst=f["inst"]))
                    continue
                raise AnalysisBroken("card.skipped-levels: the scale factor `%s` in %s is in a form this rule does not read" % (a1, f["inst"]))
            x = m.group(1)
            if not walks_from_current(x):
                R.fail(iid, where(f, sc.line), Finding(R.rule, f["file"], base_name(f["q"]), "scale-arg",
                       "the count is scaled by the size of level `%s`, which is not the current level `%s` (or a level walked down from it): with non-uniform variable sizes the count is wrong" % (x, lv), sc.line, inst=f["inst"]))
                continue
            R.ok(iid, where(f, sc.line))
            # not reachable for x<=0 in an identity-reduced forest
            R.paths += 1
            iid = "%s: scaleBy by level `%s` is not reached for a primed level of an identity-reduced forest" % (inst, x)
            forb = {(k.id, atom_edge(k)) for k in pos_b(x)} | {(k.id, 1 - atom_edge(k)) for k in idr_b}
            p_ = g.path(first[0], lambda k, sc=sc: k.id == sc.id, avoid_edge=lambda k, i: (k.id, i) in forb) if first[0] != sc.id else [sc]
            if p_ is None:
                R.ok(iid, where(f, sc.line))
            else:
                R.fail(iid, where(f, sc.line), Finding(R.rule, f["file"], base_name(f["q"]), "scale-guard",
                       "the count is scaled by the size of level `%s` also when %s<=0 and the forest is identity reduced: a skipped primed level of an identity pattern stands for one value, not for all" % (x, x), sc.line, inst=f["inst"]))
        # cannot be avoided otherwise
        R.paths += 1
        iid = "%s: a skipped level is left unscaled only when it is a primed level of an identity-reduced forest" % inst
        is_ret = lambda k: k.kind == "ret" or k.id == g.exit
        sids = {k.id for k in scales}
        xs = {re.fullmatch(r"argF->getLevelSize\((\w+)\)", _nz(k.ev["args"][1])).group(1) for k in scales if re.fullmatch(r"argF->getLevelSize\((\w+)\)", _nz(k.ev["args"][1]))}
        xs = {x for x in xs if walks_from_current(x)}     # a wrong-level factor was reported above; the way-around question is asked of the right ones only
        allow = set()
        for x in xs:
            allow |= {(k.id, 1 - atom_edge(k)) for k in pos_b(x)}
        allow_id = {(k.id, atom_edge(k)) for k in idr_b}
        around = lambda ae: g.path(first[0], is_ret, avoid=lambda k: k.id in sids, avoid_edge=ae)
        bad = None
        in_loop = any(k.id in g.reach([s_ for s_, _i in k.succ]) for k in scales)
        if in_loop:
            # a rewrite that scales level by level in a loop: which levels the loop visits is its range, a run-time quantity — not decided
            R.notes.append("%s: scaleBy sits in a loop; that the loop visits every skipped level is not decided" % inst)
        elif xs and around(None) is not None:
            # every way around must cross both the `x<=0` edge and the `is identity reduced` edge
            pos_true = set()
            for x in xs:
                pos_true |= {(k.id, atom_edge(k)) for k in pos_b(x)}
            notid = {(k.id, 1 - atom_edge(k)) for k in idr_b}
            if not pos_true or not idr_b:
                raise AnalysisBroken("card.skipped-levels: the scaling in %s can be skipped, but the guards `level>0` / `isIdentityReduced()` are not in a form this rule reads" % f["inst"])
            # a path around the scaling that takes no x<=0 edge …
            allpos = set()
            for x in xs:
                allpos |= {(k.id, 1 - atom_edge(k)) for k in pos_b(x)}
            if around(lambda k, i: (k.id, i) in allpos) is not None:
                bad = "the scaling can be skipped although the level is unprimed"
            elif around(lambda k, i: (k.id, i) in allow_id) is not None:
                bad = "the scaling can be skipped in a forest that is not identity reduced"
        if bad is None:
            R.ok(iid, where(f, b.line))
        else:
            R.fail(iid, where(f, b.line), Finding(R.rule, f["file"], base_name(f["q"]), "scale-skip", bad, b.line, inst=f["inst"]))
        # level 0 counts one
        z = [k for k in g.nodes if k.kind == "branch" and k.cond and _nz(k.cond["text"]) in ("0==%s" % lv, "%s==0" % lv)]
        iid = "%s: level 0 (below all variables) counts 1" % inst
        R.paths += 1
        okz = False
        if z:
            k = g.nodes[[s_ for s_, i in z[0].succ if i == (1 if z[0].cond.get("neg") else 0)][0]]
            for _ in range(4):
                if k.kind == "call" and k.ev["q"].endswith("::set") and [_nz(a) for a in k.ev["args"]] == [rs, "1"]:
                    okz = True
                if len(k.succ) != 1:
                    break
                k = g.nodes[k.succ[0][0]]
        (R.ok(iid, where(f, z[0].line)) if okz else R.fail(iid, where(f), Finding(R.rule, f["file"], base_name(f["q"]), "level0", "no `0==%s → set(%s, 1)` terminal case" % (lv, rs), f["line"], inst=f["inst"])))
    if n < 3:
        raise AnalysisBroken("card.skipped-levels: expected the 3 instantiations of card_templ::_compute, found %d" % n)
    R.require_floor(12, "cardinality obligations")
    return R


def rule_mark_once(P):
    """reachable-node marking behind node/edge counts, display and file output: a node is queued only when it is a non-terminal that is not yet
    marked, and it is marked before it is queued (so every reachable node is explored exactly once); the two edge counters unpack the way they count"""
    R = RuleResult("mark.explore-once", "node_marker::addToQueue queues a handle only across the true edges of `p>0` and `!marked.get(p)` and after marked.set(p,true); the packed-node walker offers every stored child; countEdges unpacks FULL, countNonzeroEdges SPARSE, both summing getSize() over the marked nodes")
    fs = P.by_q.get(M + "node_marker::addToQueue", [])
    if not fs or not fs[0].get("cfg"):
        raise AnalysisBroken("mark.explore-once: node_marker::addToQueue not found")
    f = fs[0]
    g = Graph(f)
    R.functions.add(f["inst"])
    push = [k for k in g.nodes if k.kind == "call" and k.ev["q"].endswith("::push_back")]
    if len(push) != 1:
        raise AnalysisBroken("mark.explore-once: expected one push_back in addToQueue")
    hp = f["params"][0]["name"]
    tgt = lambda k: k.id == push[0].id
    def guard(pred, what, sink):
        bs = [b for b in g.nodes if b.kind == "branch" and b.cond and len(b.succ) == 2 and pred(b)]
        iid = "addToQueue: queued only when %s" % what
        R.paths += 1
        ok = False
        for b in bs:
            te = 1 if b.cond.get("neg") else 0     # edge on which the un-negated atom holds
            want = te if not _nz(b.cond["text"]).startswith("!") else 1 - te
            if pred is is_marked:
                want = 1 - te                     # we need the edge on which marked.get() is FALSE
            if g.path(g.entry, tgt, avoid_edge=lambda k, i, b=b, want=want: k.id == b.id and i == want) is None:
                ok = True
        (R.ok(iid, where(f, push[0].line)) if ok else R.fail(iid, where(f, push[0].line), Finding(R.rule, f["file"], base_name(f["q"]), sink,
             "a handle can be queued without %s: terminals / already explored nodes are explored (again), counts and output repeat or walk garbage" % what, push[0].line)))
    is_pos = lambda b: _nz(b.cond["text"]) in ("%s>0" % hp, "0<%s" % hp)
    is_marked = lambda b: any(c.endswith("bitvector::get") for c in b.cond["calls"])
    guard(is_pos, "the handle is a non-terminal (%s>0)" % hp, "guard-positive")
    guard(is_marked, "the node is not marked yet", "guard-unmarked")
    iid = "addToQueue: marked before queued"
    R.paths += 1
    setm = lambda k: k.kind == "call" and k.ev["q"].endswith("bitvector::set") and len(k.ev["args"]) == 2 and _nz(k.ev["args"][1]) == "true" and hp in k.ev["args"][0]
    if g.path(g.entry, tgt, avoid=setm) is None:
        R.ok(iid, where(f, push[0].line))
    else:
        R.fail(iid, where(f, push[0].line), Finding(R.rule, f["file"], base_name(f["q"]), "mark-before-queue", "a handle is queued without being marked: a node reachable along two paths is explored twice and shared structure is counted twice", push[0].line))
    # the packed-node walker offers every stored child
    for f2 in P.fns.values():
        if f2["q"].endswith("::addDownToQueue") and f2.get("cfg") and f2["file"].startswith("storage/"):
            g2 = Graph(f2)
            R.functions.add(f2["inst"])
            calls = [k for k in g2.nodes if k.kind == "call" and k.ev["q"] == M + "node_marker::addToQueue"]
            loops = [b for b in g2.nodes if b.kind == "branch" and b.cond and b.cond.get("op") == "<" and len(b.succ) == 2]
            sizes = {k.ev["var"] for k in g2.nodes if k.kind == "ldef" and re.search(r"getSize\(", k.ev.get("rhs", "")) and not k.ev.get("ptr")}
            iid = "%s: every stored child is offered to the marker" % base_name(f2["q"]).replace(M, "")
            R.paths += 1
            ok = len(calls) == 1 and re.fullmatch(r"\w+\[(\w+)\]", _nz(calls[0].ev["args"][0])) and any(
                _nz(b.cond["r"]["text"] if isinstance(b.cond.get("r"), dict) and "text" in b.cond["r"] else b.cond["text"].split("<")[-1]) in sizes for b in loops)
            (R.ok(iid, where(f2, calls[0].line if calls else None)) if ok else R.fail(iid, where(f2), Finding(R.rule, f2["file"], base_name(f2["q"]), "walker",
                 "the walker must call addToQueue(down[i]) for i below the stored size (getSize of the raw size); found calls %s" % [k.ev["args"] for k in calls], f2["line"])))
    # the two edge counters
    for name, mode in (("countEdges", "FULL_ONLY"), ("countNonzeroEdges", "SPARSE_ONLY")):
        fs = P.by_q.get(M + "node_marker::" + name, [])
        if not fs or not fs[0].get("cfg"):
            raise AnalysisBroken("mark.explore-once: node_marker::%s not found" % name)
        f3 = fs[0]
        g3 = Graph(f3)
        R.functions.add(f3["inst"])
        news = [k for k in g3.nodes if k.kind == "call" and k.ev["q"].endswith("unpacked_node::New")]
        iid = "%s unpacks %s" % (name, mode)
        R.paths += 1
        if len(news) == 1 and _nz(news[0].ev["args"][-1]) == mode:
            R.ok(iid, where(f3, news[0].line))
        else:
            R.fail(iid, where(f3), Finding(R.rule, f3["file"], base_name(f3["q"]), "unpack-mode", "%s must unpack its nodes %s (full size = all edges, sparse size = non-zero edges); found %s" % (name, mode, [k.ev["args"] for k in news]), f3["line"]))
        iid = "%s sums getSize() of every marked node" % name
        R.paths += 1
        acc = [k for k in g3.nodes if k.kind == "ldef" and k.ev.get("op") == "+=" and re.search(r"->getSize\(\)$", _nz(k.ev.get("rhs", "")))]
        scan = [k for k in g3.nodes if k.kind == "ldef" and re.search(r"marked\.firstOne\((\w+)\+1\)", _nz(k.ev.get("rhs", ""))) and re.search(r"marked\.firstOne\((\w+)\+1\)", _nz(k.ev["rhs"])).group(1) == k.ev["var"]]
        init = [k for k in g3.nodes if k.kind == "call" and k.ev["q"].endswith("unpacked_node::initFromNode") and scan and _nz(k.ev["args"][0]) == scan[0].ev["var"]]
        if acc and scan and init:
            R.ok(iid, where(f3, acc[0].line))
        else:
            R.fail(iid, where(f3), Finding(R.rule, f3["file"], base_name(f3["q"]), "sum", "expected `i = marked.firstOne(i+1)` scan, initFromNode(i) and `ec += M->getSize()`; found acc=%d scan=%d init=%d" % (len(acc), len(scan), len(init)), f3["line"]))
    R.require_floor(8, "marking / counting obligations")
    return R


def _index_exprs(text, var):
    """index expressions of `var[...]` occurrences in text (balanced brackets)"""
    out = []
    for m in re.finditer(r"(?<![\w.>])%s\[" % re.escape(var), text):
        d, j = 1, m.end()
        while j < len(text) and d:
            d += text[j] == "["
            d -= text[j] == "]"
            j += 1
        out.append(text[m.end():j - 1])
    return out


def rule_array_extent(P):
    """level and variable numbers run from 1 to N (0 is the terminal level): an array indexed by them needs N+1 elements"""
    R = RuleResult("level.array-extent", "a heap array that is indexed by level or variable numbers (values obtained from getVarByLevel / getLevelByVar / getNodeLevel) is allocated with getNumVariables()+1 elements, not getNumVariables()")
    n = 0
    seen = set()
    for f in sorted(P.fns.values(), key=lambda f: (f["file"], f["line"], f["inst"])):
        if not f.get("cfg") or (f["file"], f["line"]) in seen:
            continue
        evs = [e for b in f["cfg"]["blocks"] for e in b["ev"]]
        news = [e for e in evs if e["k"] == "new" and re.search(r"\[(.+)\]\s*$", e.get("text", ""))]
        if len(news) != 1:
            continue
        seen.add((f["file"], f["line"]))
        arrays = {e["var"] for e in evs if e["k"] == "astore"} & {re.sub(r"\s+", "", e.get("text", "")) for e in evs if e["k"] == "delete"}
        if len(arrays) != 1:
            continue
        arr = next(iter(arrays))
        defs = {}
        for e in evs:
            if e["k"] == "ldef" and e.get("rhs") and not e.get("ptr") and e.get("op", "=") in ("=", None):
                defs.setdefault(e["var"], set()).add(_nz(e["rhs"]))
        ext = _nz(re.search(r"\[(.+)\]\s*$", news[0]["text"]).group(1))
        def resolve(t, depth=0):
            t = _strip(t)
            if re.fullmatch(r"\w+", t) and len(defs.get(t, ())) == 1 and depth < 3:
                return resolve(next(iter(defs[t])), depth + 1)
            return t
        m = re.fullmatch(r"(.+?)\+1|1\+(.+)", ext)
        base = resolve(m.group(1) or m.group(2)) if m else resolve(ext)
        if not re.search(r"getNumVariables\(\)$", base):
            continue
        extent = "N+1" if m else "N"
        env = {}
        ldefs = [e for e in evs if e["k"] == "ldef" and e.get("rhs") and not e.get("ptr")]
        for _ in range(3):
            for e in ldefs:
                k = _kind(e["rhs"], env)
                if k:
                    env.setdefault(e["var"], set()).add(k)
        texts = [e.get("index", "") for e in evs if e["k"] == "astore" and e["var"] == arr]
        for b in f["cfg"]["blocks"]:
            if b.get("cond"):
                texts += _index_exprs(b["cond"]["text"], arr)
            for e in b["ev"]:
                if e["k"] == "ldef":
                    texts += _index_exprs(e.get("rhs", "") or "", arr)
                elif e["k"] == "call":
                    for a in e.get("args", []) or []:
                        texts += _index_exprs(a, arr)
        kinds = sorted({k for k in (_kind(t, env) for t in texts) if k in ("VAR", "LEVEL")})
        if not kinds:
            continue
        n += 1
        R.functions.add(f["inst"])
        R.paths += 1
        iid = "%s: `%s` indexed by %s numbers has %s elements" % (base_name(f["q"]).replace(M, "")[:70], arr, "/".join(k.lower() for k in kinds), extent)
        if extent == "N+1":
            R.ok(iid, where(f, news[0]["line"]))
        else:
            R.fail(iid, where(f, news[0]["line"]), Finding(R.rule, f["file"], base_name(f["q"]), "extent:" + arr,
                   "`%s` is allocated with getNumVariables() elements but indexed by %s numbers, which run from 1 to getNumVariables(): the last element is one past the end (heap overflow; glibc aborts in delete[] when the array has no padding, e.g. 6 variables)" % (arr, "/".join(k.lower() for k in kinds)), news[0]["line"], inst=f["inst"]))
    if n < 6:
        raise AnalysisBroken("level.array-extent: expected the 6 reordering heuristics with a transposed-order array, found %d" % n)
    R.require_floor(6, "arrays indexed by level / variable numbers")
    return R


def rule_position_kind(P):
    """a sparsely unpacked node is walked by *position* z (0 ≤ z < getSize()); the variable's value at that position is index(z).  Positions address
    the node (down(z), edgeval(z), index(z)); values address everything else (the identity pattern built for that value, the slot of a full node,
    the state's component).  Passing the position where the value is meant works whenever the node happens to be dense from 0 (seed C20a)"""
    R = RuleResult("level.position-kind", "in every function that walks a sparse node: where a local reaches a use as the argument of index(·) (a position), it is never passed as the value argument of initIdentity / newIdentity; where the reaching definition of a local is index(z) of a node (a value), it is never used as the argument of down(·) / edgeval(·) / index(·) of that same node")
    n = 0
    seen = set()
    for f in sorted(P.fns.values(), key=lambda f: (f["file"], f["line"], f["inst"])):
        if not f.get("cfg") or not f["file"].startswith(("operations/", "forest.cc", "minterms.cc", "dd_edge.cc", "sat_relations.cc")) or (f["file"], f["line"]) in seen:
            continue
        if not any(e["k"] == "call" and e["q"] == M + "unpacked_node::index" for b in f["cfg"]["blocks"] for e in b["ev"]):
            continue
        seen.add((f["file"], f["line"]))
        g = Graph(f)
        defs = {}
        for k in g.nodes:
            if k.kind == "ldef":
                defs.setdefault(k.ev["var"], []).append(k)

        def reaching(var, use):
            """definitions of var that reach node `use` (no other definition of var in between)"""
            ds = defs.get(var, [])
            ids = {d.id for d in ds}
            return [d for d in ds if any(st == use.id or g.path(st, lambda k: k.id == use.id, avoid=lambda k: k.id in ids) is not None for st, _ in d.succ)]
        mode = {}           # unpacked-node local -> FULL_ONLY / SPARSE_ONLY (single definition with a literal mode)
        for v_, ds_ in defs.items():
            ms = {m_.group(1) for d_ in ds_ for m_ in [re.search(r"unpacked_node::(?:New|newFromNode|newWritable|newRedundant|newIdentity)\(.*,(FULL_ONLY|SPARSE_ONLY)\)$", _nz(d_.ev.get("rhs", "")))] if m_}
            if len(ms) == 1 and all(re.search(r"unpacked_node::", _nz(d_.ev.get("rhs", ""))) for d_ in ds_):
                mode[v_] = next(iter(ms))
        idx_uses = {}       # var -> [index(var) call nodes]
        for k in g.nodes:
            if k.kind == "call" and k.ev["q"] == M + "unpacked_node::index" and k.ev.get("args") and re.fullmatch(r"\w+", _nz(k.ev["args"][0])):
                idx_uses.setdefault(_nz(k.ev["args"][0]), []).append(k)
        for k in g.nodes:
            if k.kind != "call" or not k.ev["q"].startswith(M + "unpacked_node::"):
                continue
            nm = k.ev["q"].split("::")[-1]
            args = [_nz(a) for a in (k.ev.get("args") or [])]
            if nm in ("initIdentity", "newIdentity"):
                li = next((i for i, a in enumerate(args) if re.search(r"[lL]evel|^-", a)), None)
                cand = args[li + 1:li + 2] if li is not None else []
                for a in cand:
                    if not re.fullmatch(r"\w+", a):
                        continue
                    rd = reaching(a, k)
                    is_value = bool(rd) and all(re.search(r"->index\(\w+\)", _nz(d.ev.get("rhs", ""))) for d in rd)
                    # a position: the same reaching definitions also reach an index(a) use
                    is_pos = any({d.id for d in reaching(a, u)} & {d.id for d in rd} for u in idx_uses.get(a, [])) if rd else (a in idx_uses)
                    if not is_value and not is_pos:
                        continue
                    n += 1
                    R.functions.add(f["inst"])
                    R.paths += 1
                    iid = "%s: %s(…, %s, …) takes a value" % (base_name(f["q"]).replace(M, "")[:60], nm, a)
                    if is_pos and not is_value:
                        R.fail(iid, where(f, k.line), Finding(R.rule, f["file"], base_name(f["q"]), "%s(%s)" % (nm, a),
                               "`%s` is a position in a sparse node here (the same definition feeds index(%s)) but is passed to %s as the variable's value: right only while the node is dense from 0" % (a, a, nm), k.line))
                    else:
                        R.ok(iid, where(f, k.line))
            elif nm in ("down", "edgeval") and args and re.fullmatch(r"\w+", args[0]) and args[0] in defs and _nz(k.ev.get("recv") or "") in mode:
                # a node unpacked FULL_ONLY is addressed by the variable's value, one unpacked SPARSE_ONLY by position
                U = _nz(k.ev["recv"])
                v = args[0]
                rd = reaching(v, k)
                rdi = {d.id for d in rd}
                is_value = bool(rd) and all(re.search(r"->index\(\w+\)", _nz(d.ev.get("rhs", ""))) for d in rd)
                pos_of = {_nz(u.ev.get("recv") or "") for u in idx_uses.get(v, []) if {d.id for d in reaching(v, u)} & rdi}
                n += 1
                R.functions.add(f["inst"])
                R.paths += 1
                iid = "%s: %s->%s(%s), %s unpacked %s" % (base_name(f["q"]).replace(M, "")[:50], U, nm, v, U, mode[U])
                if mode[U] == "FULL_ONLY" and pos_of and U not in pos_of and not is_value:
                    R.fail(iid, where(f, k.line), Finding(R.rule, f["file"], base_name(f["q"]), "%s->%s(%s)" % (U, nm, v),
                           "`%s` is a position in the sparse node(s) %s, but `%s` is unpacked FULL_ONLY and is addressed by the variable's value: the two coincide only while the sparse node is dense from 0" % (v, sorted(pos_of), U), k.line))
                elif mode[U] == "SPARSE_ONLY" and is_value:
                    R.fail(iid, where(f, k.line), Finding(R.rule, f["file"], base_name(f["q"]), "%s->%s(%s)" % (U, nm, v),
                           "`%s` holds a variable's value (it is defined by index(·)) but addresses `%s`, which is unpacked SPARSE_ONLY, by position" % (v, U), k.line))
                else:
                    R.ok(iid, where(f, k.line))
            elif nm in ("down", "edgeval", "index") and args and re.fullmatch(r"\w+", args[0]) and args[0] in defs:
                rd = reaching(args[0], k)
                vals = [d for d in rd if re.fullmatch(r"(?:\w+\()?([\w>\[\].-]+)->index\((\w+)\)\)?", _nz(d.ev.get("rhs", "")))]
                if not vals:
                    continue
                node = re.fullmatch(r"(?:\w+\()?([\w>\[\].-]+)->index\((\w+)\)\)?", _nz(vals[0].ev["rhs"])).group(1)
                if _nz(k.ev.get("recv") or "") != node:
                    continue
                n += 1
                R.functions.add(f["inst"])
                R.paths += 1
                R.fail("%s: %s->%s(%s)" % (base_name(f["q"]).replace(M, "")[:60], node, nm, args[0]), where(f, k.line),
                       Finding(R.rule, f["file"], base_name(f["q"]), "%s->%s(%s)" % (node, nm, args[0]),
                               "`%s` holds a value index(·) of `%s` here but is used to address the same node by position" % (args[0], node), k.line))
    if n < 40:
        raise AnalysisBroken("level.position-kind: only %d typed position/value uses found, expected ≥40" % n)
    R.require_floor(40, "typed position / value uses in sparse walks")
    return R


def rule_operand_unpack(P):
    """level-synchronised recursion unpacks each operand either as itself (its node sits at the level being built) or as the expansion of the levels
    it skips (redundant, or — identity-reduced forests, primed level — identity).  Which of the three is used for operand H of forest F is decided by
    H's own level and F's own reduction rule: the test that selects initFromNode(H) compares the level obtained from F->getNodeLevel(H) of that same H,
    and the test that selects initIdentity asks F, the forest the unpacked node was made for"""
    R = RuleResult("level.operand-unpack", "for every unpacked node U = New(F, …) initialised from handle H by initFromNode / initRedundant / initIdentity: the governing level test compares a level defined as getNodeLevel(H) of the same H in the same F, and the identity arm is governed by F->isIdentityReduced() of the same F")
    n = 0
    seen = set()
    for f in sorted(P.fns.values(), key=lambda f: (f["file"], f["line"], f["inst"])):
        if not f.get("cfg") or not f["file"].startswith("operations/") or (f["file"], f["line"]) in seen:
            continue
        evs = [e for b in f["cfg"]["blocks"] for e in b["ev"]]
        if not any(e["k"] == "call" and e["q"] == M + "unpacked_node::initFromNode" for e in evs):
            continue
        seen.add((f["file"], f["line"]))
        g = Graph(f)
        made = {}    # U -> forest text
        lvl = {}     # level local -> (forest, handle)
        for k in g.nodes:
            if k.kind == "ldef" and k.ev.get("rhs"):
                m = re.fullmatch(r"unpacked_node::New\((\w+),.*\)", _nz(k.ev["rhs"]))
                if m:
                    made[k.ev["var"]] = m.group(1)
                m = re.fullmatch(r"(?:ABS\()?(\w+)->getNodeLevel\((\w+)\)\)?", _nz(k.ev["rhs"]))
                if m:
                    lvl[k.ev["var"]] = (m.group(1), m.group(2))

        def governing(k):
            out = []
            for c in g.nodes:
                if c.kind != "branch" or not c.cond or len(c.succ) != 2:
                    continue
                arms = [i for s_, i in c.succ if k.id in g.reach([s_], avoid=lambda x, c=c: x.id == c.id)]
                if len(arms) == 1:
                    out.append((_nz(c.cond["text"]), arms[0]))
            return out
        for k in g.nodes:
            if k.kind != "call" or not k.ev["q"].startswith(M + "unpacked_node::") or k.ev["q"].split("::")[-1] not in ("initFromNode", "initRedundant", "initIdentity"):
                continue
            U = _nz(k.ev.get("recv") or "")
            if U not in made:
                continue
            F = made[U]
            nm = k.ev["q"].split("::")[-1]
            H = _nz(k.ev["args"][-1])
            if not re.fullmatch(r"\w+", H):
                continue
            conds = governing(k)
            tests = [(t, a) for t, a in conds if re.fullmatch(r"(\w+)(!=|==)(\w+)", t) and any(x in lvl for x in re.fullmatch(r"(\w+)(!=|==)(\w+)", t).groups()[::2])]
            if not tests:
                continue
            n += 1
            R.functions.add(f["inst"])
            R.paths += 1
            iid = "%s: %s->%s(%s)" % (base_name(f["q"]).replace(M, "")[:50], U, nm, H)
            problems = []
            lv = [x for t, a in tests for x in re.fullmatch(r"(\w+)(!=|==)(\w+)", t).groups()[::2] if x in lvl]
            if not any(lvl[x] == (F, H) for x in lv):
                problems.append("the level test uses %s, not the level of `%s` in %s" % (sorted({"%s = %s->getNodeLevel(%s)" % (x, lvl[x][0], lvl[x][1]) for x in lv}), H, F))
            if nm == "initIdentity":
                ids = [t for t, a in conds if "isIdentityReduced()" in t]
                if ids and not any(re.search(r"(?<!\w)%s->isIdentityReduced\(\)" % re.escape(F), t) for t in ids):
                    problems.append("the identity expansion is selected by %s, not by %s->isIdentityReduced()" % (ids, F))
            if not problems:
                R.ok(iid, where(f, k.line))
            else:
                R.fail(iid, where(f, k.line), Finding(R.rule, f["file"], base_name(f["q"]), "%s->%s(%s)" % (U, nm, H), "; ".join(problems) + ": the operand is expanded (or not) according to the other operand's shape", k.line, inst=None))
    if n < 30:
        raise AnalysisBroken("level.operand-unpack: only %d governed operand initialisations found, expected ≥30" % n)
    R.require_floor(30, "operand initialisations")
    return R


def rule_chain_args(P):
    """a result computed at the level of its node is chained up to the level the caller asked for: makeRedundantsTo(p, K, L), makeIdentitiesTo(p, K, L, in),
    chainToLevel(p, K, L, in) add the levels K+1..L.  All three level-typed arguments are plain ints: the requested level must be the function's own
    level parameter (or a loop counter that walks levels), the start must not be that parameter, and `in` must be the incoming-index parameter"""
    R = RuleResult("level.chain-args", "in every operation, makeRedundantsTo / makeIdentitiesTo / chainToLevel chain *to* the function's level parameter (or a level loop counter) *from* something else, and pass the function's incoming-index parameter as `in`")
    n = 0
    seen = set()
    for f in sorted(P.fns.values(), key=lambda f: (f["file"], f["line"], f["inst"])):
        if not f.get("cfg") or not f["file"].startswith("operations/") or (f["file"], f["line"]) in seen:
            continue
        ps = f.get("params", [])
        sig = _split(f.get("sig", ""))
        if not ps or not sig or len(sig) != len(ps):
            continue
        # the requested level is the int parameter right before the `unsigned in` parameter (…, int L, unsigned in, …), else a leading int parameter
        li = next((i for i in range(1, len(sig)) if sig[i].startswith("unsigned") and sig[i - 1] == "int"), None)
        if li is not None:
            lvp, inp = ps[li - 1]["name"], ps[li]["name"]
        elif sig[0] == "int":
            lvp, inp = ps[0]["name"], None
        else:
            continue
        seen.add((f["file"], f["line"]))
        counters = set()
        for b in f["cfg"]["blocks"]:
            for e in b["ev"]:
                if e["k"] == "ldef" and e.get("rhs") and re.search(r"(?<!\w)%s(?!\w)" % re.escape(e["var"]), e["rhs"]):
                    counters.add(e["var"])
                if e["k"] == "ldef" and e.get("op") in ("++", "--", "+=", "-="):
                    counters.add(e["var"])
                # `for (int k=L; k; --k)`: the facts carry no event for ++/-- on a local, so a local initialised with the level parameter itself is a level counter
                if e["k"] == "ldef" and _nz(e.get("rhs") or "") == lvp:
                    counters.add(e["var"])
        for b in f["cfg"]["blocks"]:
            for e in b["ev"]:
                if e["k"] != "call" or e["q"].split("::")[-1] not in ("makeRedundantsTo", "makeIdentitiesTo", "chainToLevel") or len(e.get("args") or []) < 3:
                    continue
                a = [_nz(x) for x in e["args"]]
                n += 1
                R.functions.add(f["inst"])
                R.paths += 1
                nm = e["q"].split("::")[-1]
                iid = "%s: %s(%s)" % (base_name(f["q"]).replace(M, "")[:50], nm, ", ".join(a)[:60])
                problems = []
                if not (a[2] == lvp or any(re.search(r"(?<!\w)%s(?!\w)" % re.escape(c), a[2]) for c in counters)):
                    problems.append("chains to `%s`, which is neither the level parameter `%s` nor a level loop counter" % (a[2], lvp))
                if a[1] == lvp and a[2] == lvp:
                    problems.append("chains from the requested level to itself")
                elif a[1] == lvp and a[2] != lvp:
                    problems.append("chains *from* the requested level `%s`" % lvp)
                if nm in ("makeIdentitiesTo", "chainToLevel") and len(a) > 3 and inp and a[3] != inp:
                    problems.append("passes `%s` as the incoming index, the parameter is `%s`" % (a[3], inp))
                if not problems:
                    R.ok(iid, where(f, e["line"]))
                else:
                    R.fail(iid, where(f, e["line"]), Finding(R.rule, f["file"], base_name(f["q"]), "%s(%s)" % (nm, ",".join(a[1:4])), "; ".join(problems) + ": the result is returned at the wrong level or with the wrong identity index", e["line"]))
    if n < 60:
        raise AnalysisBroken("level.chain-args: only %d chaining calls found, expected ≥60" % n)
    R.require_floor(60, "chaining calls")
    return R


def _split(sig):
    t = (sig or "").strip()
    if not t.startswith("("):
        return None
    d, cur, out = 0, "", []
    for ch in t[1:]:
        if ch in "(<[":
            d += 1
        if ch in ")>]":
            if d == 0:
                break
            d -= 1
        if ch == "," and d == 0:
            out.append(cur.strip())
            cur = ""
        else:
            cur += ch
    out.append(cur.strip())
    return out


def rule_compare_after_store(P):
    """"did this slot change?" must be asked before the slot is overwritten: after U->setFull(i, v, p) the slot holds (v, p), so a later comparison of
    v with the slot's edge value, or of p with its child, is a comparison of a value with itself (seed C08c: saturation's addToCi then reports every
    distance-only improvement as "unchanged" and the row is not re-queued)"""
    R = RuleResult("level.compare-after-store", "no comparison of v with edgeval(U,i) / U->edgeval(i), or of p with U->down(i), is reachable from U->setFull(i, v, p) without another write to U in between")
    n = 0
    seen = set()
    for f in sorted(P.fns.values(), key=lambda f: (f["file"], f["line"], f["inst"])):
        if not f.get("cfg") or not f["file"].startswith("operations/") or (f["file"], f["line"]) in seen:
            continue
        g = None
        evs = [e for b in f["cfg"]["blocks"] for e in b["ev"]]
        sets = [e for e in evs if e["k"] == "call" and e["q"] in (M + "unpacked_node::setFull", M + "unpacked_node::setSparse") and re.fullmatch(r"\w+", _nz(e.get("recv") or ""))]
        if not sets:
            continue
        seen.add((f["file"], f["line"]))
        g = Graph(f)
        for k in g.nodes:
            if k.kind != "call" or k.ev["q"] not in (M + "unpacked_node::setFull",) or not re.fullmatch(r"\w+", _nz(k.ev.get("recv") or "")):
                continue
            U = _nz(k.ev["recv"])
            a = [_nz(x) for x in k.ev["args"]]
            if len(a) == 3:
                i_, v_, p_ = a
            elif len(a) == 2:
                i_, v_, p_ = a[0], None, a[1]
            else:
                continue
            if not re.fullmatch(r"\w+", i_):
                continue
            n += 1
            R.functions.add(f["inst"])
            R.paths += 1
            writes = lambda x, U=U: x.kind == "call" and x.ev["q"].startswith(M + "unpacked_node::") and x.ev["q"].split("::")[-1] in ("setFull", "setSparse", "initFromNode", "initRedundant", "initIdentity", "clear", "resize") and _nz(x.ev.get("recv") or "") == U
            after = g.reach([s_ for s_, _i in k.succ], avoid=lambda x: writes(x) or (x.kind == "ldef" and x.ev["var"] in (i_, v_, p_)))
            bad = None
            for x in (g.nodes[j] for j in after):
                txt = None
                if x.kind == "branch" and x.cond:
                    txt = x.cond["text"]
                elif x.kind == "ret":
                    txt = x.ev.get("text")
                elif x.kind == "ldef":
                    txt = x.ev.get("rhs")
                if not txt:
                    continue
                t = _nz(txt)
                slot_ev = r"(?:edgeval\(%s,%s\)|%s->edgeval\(%s\))" % (re.escape(U), re.escape(i_), re.escape(U), re.escape(i_))
                slot_dn = r"%s->down\(%s\)" % (re.escape(U), re.escape(i_))
                pats = []
                if v_ and re.fullmatch(r"\w+", v_):
                    pats += [r"(?<!\w)%s(==|!=)%s" % (re.escape(v_), slot_ev), r"%s(==|!=)%s(?!\w)" % (slot_ev, re.escape(v_))]
                if p_ and re.fullmatch(r"\w+", p_):
                    pats += [r"(?<!\w)%s(==|!=)%s" % (re.escape(p_), slot_dn), r"%s(==|!=)%s(?!\w)" % (slot_dn, re.escape(p_))]
                if any(re.search(pt, t) for pt in pats):
                    bad = x
                    break
            iid = "%s: %s->setFull(%s) is not followed by a comparison with the slot it wrote" % (base_name(f["q"]).replace(M, "")[:50], U, ", ".join(a))
            if bad is None:
                R.instances.append({"id": iid, "where": where(f, k.line), "ok": True}) if len(R.instances) < 300 else None
            else:
                R.fail(iid, where(f, bad.line), Finding(R.rule, f["file"], base_name(f["q"]), "self-compare:%s[%s]" % (U, i_),
                       "after %s->setFull(%s) the comparison `%s` reads back what was just stored: it can never see a change" % (U, ", ".join(a), _nz(bad.cond["text"] if bad.kind == "branch" else (bad.ev.get("text") or bad.ev.get("rhs")))[:80]), bad.line))
    if n < 100:
        raise AnalysisBroken("level.compare-after-store: only %d setFull sites found, expected ≥100" % n)
    R.require_floor(100, "setFull sites")
    return R


def _relation_receivers(P, f):
    """receiver texts that denote a relation forest inside f: arg2F of an operation whose constructor requires (SET, RELATION, SET), the parent forest of a rel_node"""
    cls = f.get("cls") or ""
    out = set()
    if base_name(cls) in {base_name(c) for c in P.subclasses(M + "rel_node")}:
        out.add("getParent()")
    for c in P.match(lambda c_: c_.get("cls") == cls and c_.get("cfg") and base_name(c_["q"]).split("::")[-1] == base_name(cls).split("::")[-1]):
        for b in c["cfg"]["blocks"]:
            for e in b["ev"]:
                if e["k"] == "call" and e["q"].endswith("::checkRelations") and [_nz(a) for a in e["args"]][-3:] == ["SET", "RELATION", "SET"]:
                    out.add("arg2F")
    return out


SKIP_EXEMPT = {
    "MEDDLY::rel_node_from_dd::getDiagonal": "the [i][i] entry below a skipped primed level is the child itself under both rules (identity: only entry of row i; redundant: every entry of row i)",
}


def rule_skip_rule_consulted(P):
    """a relation forest may be identity-, fully- or quasi-reduced, and a level its node skips means something different in each (identity pattern,
    complete matrix, nothing skipped).  A function that compares the level of a relation node with the level it is working at has detected a skip;
    what it does next is right for at most one rule unless it asks the forest which rule it has.  Contradiction form (Engler): recFire, the image
    operation, and rel_node::outgoing all ask; saturation's fillSplit did not (D22) and treated every skip as identity"""
    R = RuleResult("level.skip-rule-consulted", "every function that reads getNodeLevel of a relation-forest node (arg2F of a SET x RELATION -> SET operation, the parent of a rel_node) also asks that same forest isIdentityReduced()/isFullyReduced(); exemptions are listed with their reason")
    seen = set()
    for f in sorted(P.fns.values(), key=lambda f: (f["file"], f["line"], f["inst"])):
        if not f.get("cfg") or (f["file"], f["line"]) in seen or f["file"].startswith("../"):
            continue
        evs = [e for b in f["cfg"]["blocks"] for e in b["ev"] if e["k"] == "call"]
        lv = [e for e in evs if e["q"] == M + "forest::getNodeLevel"]
        if not lv:
            continue
        rel = _relation_receivers(P, f)
        if not rel:
            continue
        seen.add((f["file"], f["line"]))
        used = {_nz(e.get("recv") or "") for e in lv} & rel
        for r in sorted(used):
            R.functions.add(f["inst"])
            R.paths += 1
            iid = "%s reads %s->getNodeLevel" % (base_name(f["q"]).replace(M, ""), r)
            asks = [e for e in evs if re.search(r"::is(Identity|Fully)Reduced$", e["q"]) and _nz(e.get("recv") or "") == r]
            line = min(e["line"] for e in lv if _nz(e.get("recv") or "") == r)
            if asks:
                R.ok(iid, where(f, line))
            elif base_name(f["q"]) in SKIP_EXEMPT:
                R.ok(iid, where(f, line), exempt=SKIP_EXEMPT[base_name(f["q"])])
                R.notes.append("%s exempt: %s" % (base_name(f["q"]), SKIP_EXEMPT[base_name(f["q"])]))
            else:
                R.fail(iid, where(f, line), Finding(R.rule, f["file"], base_name(f["q"]), "skip:" + r,
                       "compares the level of a node of relation forest %s with the working level but never asks %s for its reduction rule: a skipped level is an identity pattern only in an identity-reduced forest, and the complete matrix in a fully-reduced one" % (r, r), line))
    R.require_floor(5, "functions reading the level of a relation-forest node")
    return R


def rule_diagonal_lift(P):
    """saturation splits the relation at level k into `common diagonal` (what every [i][i] entry shares; a node below level k) and the rest.  Handing
    a node below level k to an operation run *at* level k together with a genuine level-k operand re-reads it through the forest's reduction rule:
    identity-reduced gives the diagonal matrix that was meant, fully- and quasi-reduced give the matrix with that entry everywhere, so the
    subtraction also deletes off-diagonal transitions (D22).  Operations whose operands are all child-level (the running intersection) are
    homogeneous and commute with the lift under every rule"""
    R = RuleResult("level.diagonal-lift", "in every function that calls rel_node::getDiagonal: a binary operation computed at a level that mixes a child-level operand (derived from getDiagonal) with a level-k operand either receives the child lifted by makeIdentitiesTo, or is governed by the true edge of isIdentityReduced()")
    n = 0
    seen = set()
    for f in sorted(P.fns.values(), key=lambda f: (f["file"], f["line"], f["inst"])):
        if not f.get("cfg") or (f["file"], f["line"]) in seen:
            continue
        evs = [e for b in f["cfg"]["blocks"] for e in b["ev"] if e["k"] == "call"]
        if not any(e["q"] == M + "rel_node::getDiagonal" for e in evs):
            continue
        seen.add((f["file"], f["line"]))
        g = Graph(f)
        # parent role: edges whose node is unpacked as the relation node
        handle = {k.ev["var"]: _nz(k.ev["rhs"]) for k in g.nodes if k.kind == "ldef" and re.fullmatch(r"\w+\.getNode\(\)", _nz(k.ev.get("rhs") or ""))}
        REL = set()
        for e in evs:
            if e["q"].endswith("::buildRelNode"):
                a = _nz(e["args"][0])
                a = handle.get(a, a)
                m = re.fullmatch(r"(\w+)\.getNode\(\)", a)
                if m:
                    REL.add(m.group(1))
        defs = []   # (target, source text)
        for k in g.nodes:
            if k.kind == "ldef" and k.ev.get("rhs"):
                defs.append((k.ev["var"], _nz(k.ev["rhs"])))
            elif k.kind == "call" and k.ev["q"] == M + "dd_edge::set" and re.fullmatch(r"\w+", _nz(k.ev.get("recv") or "")):
                defs.append((_nz(k.ev["recv"]), _nz(k.ev["args"][-1])))
            elif k.kind == "call" and k.ev["q"] == M + "dd_edge::operator=" and len(k.ev["args"]) == 2 and re.fullmatch(r"\w+", _nz(k.ev["args"][0])):
                defs.append((_nz(k.ev["args"][0]), _nz(k.ev["args"][1])))
        sinks = [k for k in g.nodes if k.kind == "call" and k.ev["q"] == M + "binary_operation::compute" and len(k.ev["args"]) == 8]
        D = set()

        def child(t):
            if "makeIdentitiesTo(" in t:
                return False
            return "getDiagonal(" in t or any(re.search(r"(?<![\w.>])%s(?!\w)" % re.escape(v), t) for v in D)
        changed = True
        while changed:
            changed = False
            for tgt, src in defs:
                if tgt not in D and tgt not in REL and child(src):
                    D.add(tgt)
                    changed = True
            for k in sinks:
                a = [_nz(x) for x in k.ev["args"]]
                if child(a[3]) and child(a[5]) and re.fullmatch(r"\w+", a[7]) and a[7] not in D:
                    D.add(a[7])
                    changed = True

        def governing(k):
            out = []
            for c in g.nodes:
                if c.kind != "branch" or not c.cond or len(c.succ) != 2:
                    continue
                arms = [i for s_, i in c.succ if k.id in g.reach([s_], avoid=lambda x, c=c: x.id == c.id)]
                if len(arms) == 1:
                    out.append((c.cond, arms[0]))
            return out
        for k in sinks:
            a = [_nz(x) for x in k.ev["args"]]
            n += 1
            R.functions.add(f["inst"])
            R.paths += 1
            op = _nz(k.ev.get("recv") or "?")
            kinds = ["child" if child(x) else "level" for x in (a[3], a[5])]
            iid = "%s: %s->compute(%s; %s=%s, %s=%s)" % (base_name(f["q"]).replace(M, "")[:50], op, a[0], a[3], kinds[0], a[5], kinds[1])
            if kinds[0] == kinds[1]:
                # the level argument is where a quasi-reduced forest chains the result up to: a child-level result must stay at the child level
                parent_levels = {[_nz(x) for x in s_.ev["args"]][0] for s_ in sinks if not all(child(_nz(x)) for x in (s_.ev["args"][3], s_.ev["args"][5]))}
                if kinds[0] == "child" and a[0] in parent_levels:
                    R.fail(iid, where(f, k.line), Finding(R.rule, f["file"], base_name(f["q"]), "chain:" + op,
                           "both operands are entries of the level-%s node (one level down) but the operation is run at level %s, the level of the node itself: a quasi-reduced forest chains the result up to that level, so the `common diagonal` becomes a level-%s node that means `this entry everywhere`" % (a[0], a[0], a[0]), k.line))
                else:
                    R.ok(iid, where(f, k.line))
                continue
            ident = [(c, arm) for c, arm in governing(k) if re.fullmatch(r"!?\w+->isIdentityReduced\(\)", _nz(c["text"]))]
            if any(arm == (1 if _nz(c["text"]).startswith("!") else 0) for c, arm in ident):
                R.ok(iid, where(f, k.line), governed="isIdentityReduced()")
                continue
            R.fail(iid, where(f, k.line), Finding(R.rule, f["file"], base_name(f["q"]), "lift:" + op,
                   "operation at level %s mixes the level-%s operand %s with %s, a node from below that level (derived from getDiagonal), without lifting it by makeIdentitiesTo and without being restricted to identity-reduced forests: a fully- or quasi-reduced forest reads the lower node as `this entry everywhere`, not `on the diagonal`" % (a[0], a[0], a[3] if kinds[0] == "level" else a[5], a[5] if kinds[1] == "child" else a[3]), k.line))
    if n < 2:
        raise AnalysisBroken("level.diagonal-lift: only %d level-k operations found in functions that read rel_node::getDiagonal, expected ≥2" % n)
    R.require_floor(2, "level-k operations next to getDiagonal")
    return R


IDENTITY_SCOPE = ("operations/sat_pregen.cc", "sat_relations.cc")


def rule_identity_needs_rule(P):
    """reading a level that a relation node skips as the identity pattern (unpacked_node::initIdentity) is what an identity-reduced forest means by the
    skip; a fully-reduced forest means the complete matrix.  The monolithic operations ask (`isIdentityReduced()` governs every initIdentity there —
    level.operand-unpack).  The partitioned-saturation code (C20) never does, and pregen_relation accepts any multi-terminal relation forest: with a
    fully-reduced one, an event that leaves a variable free is fired as if it kept the variable (triage/t27.cc: 2 states instead of 4)"""
    R = RuleResult("level.identity-needs-rule", "in the partitioned-saturation code (sat_pregen.cc, sat_relations.cc): every unpacked_node::initIdentity of a relation node is governed by the true edge of <relation forest>->isIdentityReduced(), or the relation class rejects forests that are not identity reduced in its constructor")
    # does a relation class constructor reject other rules?  (throw governed by a test on isIdentityReduced)
    guarded = set()
    for f in P.fns.values():
        if not f.get("cfg") or f["file"] not in IDENTITY_SCOPE or not f.get("cls") or base_name(f["q"]).split("::")[-1] != base_name(f["cls"]).split("::")[-1]:
            continue
        g = Graph(f)
        if any(b.kind == "branch" and b.cond and "isIdentityReduced()" in _nz(b.cond["text"]) for b in g.nodes) and any(k.kind == "throw" for k in g.nodes):
            guarded.add(f["cls"])
    n = 0
    seen = set()
    for f in sorted(P.fns.values(), key=lambda f: (f["file"], f["line"], f["inst"])):
        if not f.get("cfg") or f["file"] not in IDENTITY_SCOPE or (f["file"], f["line"]) in seen:
            continue
        seen.add((f["file"], f["line"]))
        if "bckwd_" in f["q"]:
            # C20 quantifies over the forward direction only; the backward twins have the same shape and are left to the note
            R.notes.append("%s (backward twin) not in the property's scope, same shape" % base_name(f["q"]))
            continue
        g = Graph(f)
        for k in g.nodes:
            if k.kind != "call" or k.ev["q"] != M + "unpacked_node::initIdentity":
                continue
            n += 1
            R.functions.add(f["inst"])
            R.paths += 1
            U = _nz(k.ev.get("recv") or "")
            iid = "%s: %s->initIdentity(%s)" % (base_name(f["q"]).replace(M, "")[:60], U, ", ".join(_nz(a) for a in k.ev["args"])[:50])
            gov = False
            for c in g.nodes:
                if c.kind != "branch" or not c.cond or len(c.succ) != 2 or not re.fullmatch(r"!?\w+->isIdentityReduced\(\)", _nz(c.cond["text"])):
                    continue
                arms = [i for s_, i in c.succ if k.id in g.reach([s_], avoid=lambda x, c=c: x.id == c.id)]
                if arms == [1 if _nz(c.cond["text"]).startswith("!") else 0]:
                    gov = True
            if gov or guarded:
                R.ok(iid, where(f, k.line), by="isIdentityReduced() test" if gov else "constructor of %s" % sorted(guarded))
            else:
                R.fail(iid, where(f, k.line), Finding(R.rule, f["file"], base_name(f["q"]), "identity-expansion",
                       "a level skipped by a relation node is expanded as the identity pattern without asking the forest for its reduction rule, and no relation class restricts its forest to identity-reduced: in a fully-reduced relation forest the skipped level is the complete matrix (the variable is free), so the event is fired as if it kept the variable", k.line))
    if n < 3:
        raise AnalysisBroken("level.identity-needs-rule: only %d initIdentity calls found in the forward partitioned-saturation code, expected ≥3" % n)
    R.require_floor(3, "identity expansions of relation nodes")
    return R


def _provenance(g, f, expr, depth=0, seen=None):
    """where the value of an int expression comes from: {'param', 'domain', 'operand', 'const', '?'}"""
    seen = seen if seen is not None else set()
    t = _nz(expr)
    out = set()
    if re.search(r"getNodeLevel\(|\.getLevel\(\)|->getLevel\(\)", t):
        out.add("operand")
    if re.search(r"getMaxLevelIndex\(\)|getNumVariables\(\)", t):
        out.add("domain")
    t2 = re.sub(r"[\w:]+(?:->|\.)[\w:]+\((?:[^()]|\([^()]*\))*\)", " ", t)      # member calls handled above
    params = {p_["name"] for p_ in f.get("params", [])}
    for name in set(re.findall(r"(?<![\w.>])[A-Za-z_]\w*(?!\w*\()", t2)):
        if name in ("ABS", "MAX", "MIN", "MDD_levels", "MXD_levels", "downLevel", "upLevel", "int", "unsigned", "this"):
            continue
        if name in params:
            out.add("param")
            continue
        defs = [k for k in g.nodes if k.kind == "ldef" and k.ev["var"] == name and k.ev.get("rhs")]
        if not defs:
            out.add("?")
            continue
        if name in seen or depth > 6:
            continue
        seen.add(name)
        for d in defs:
            out |= _provenance(g, f, d.ev["rhs"], depth + 1, seen)
    if not out:
        out.add("const")
    return out


def rule_saturation_provenance(P, files=("operations/sat_pregen.cc", "operations/satur_sets.cc"), floor=5):
    """saturation fires, at level k, the events filed under k on *every* node of level k — including the redundant nodes a fully-reduced set forest does
    not store.  So the levels saturation works at must come down from the top of the domain through level parameters; a level read off an operand node
    (getNodeLevel / getLevel) says where that node happens to sit, not which levels still have to be saturated.  Monolithic saturation is level-driven
    (recFire(L, …) builds its result at L).  Partitioned saturation starts at the forest's top level (seed C20b started at the level of the initial
    set's root) but its recFire builds the result at MAX(level of the set node, level of the relation node): when both skip a level the events of that
    level are never fired on the result (triage/t30.cc — known finding)"""
    R = RuleResult("level.saturation-provenance", "in the saturation operations (satur_sets.cc, sat_pregen.cc, forward): the level handed to the top-level saturate call, and the level of every result node that is created and then saturated, derive from level parameters or the domain's top level, never from the level of an operand node")
    n = 0
    seen = set()
    for f in sorted(P.fns.values(), key=lambda f: (f["file"], f["line"], f["inst"])):
        if not f.get("cfg") or f["file"] not in files or (f["file"], f["line"]) in seen:
            continue
        nm = base_name(f["q"]).split("::")[-1]
        if "bckwd_" in f["q"]:
            continue
        g = None
        short = base_name(f["q"]).replace(M, "")
        # (a) entry points: compute(...) calling saturate / saturate_1 with a level
        if nm == "compute":
            g = Graph(f)
            for k in g.nodes:
                if k.kind == "call" and re.fullmatch(r"saturate(_1)?", k.ev["q"].split("::")[-1]) and len(k.ev["args"]) >= 2:
                    a = [_nz(x) for x in k.ev["args"]]
                    lv = [x for x in a if not re.search(r"getNode\(\)|^\w*[vV]$", x)]
                    cand = a[0] if re.fullmatch(r"\w+", a[0]) and len(a) > 2 else a[1]
                    prov = _provenance(g, f, cand)
                    n += 1
                    R.functions.add(f["inst"])
                    R.paths += 1
                    iid = "%s: top-level %s starts at `%s` (%s)" % (short, k.ev["q"].split("::")[-1], cand, "+".join(sorted(prov)))
                    if "operand" in prov:
                        R.fail(iid, where(f, k.line), Finding(R.rule, f["file"], base_name(f["q"]), "start-level",
                               "saturation starts at `%s`, a level read off the operand: the levels above the root of a fully-reduced initial set are never saturated, so events whose top level is above that root are never fired" % cand, k.line))
                    else:
                        R.ok(iid, where(f, k.line))
            seen.add((f["file"], f["line"]))
            continue
        if nm not in ("recFire", "saturate", "saturate_1"):
            continue
        seen.add((f["file"], f["line"]))
        g = Graph(f)
        made = {}
        for k in g.nodes:
            if k.kind == "ldef" and k.ev.get("rhs"):
                m = re.match(r"(?:MEDDLY::)?unpacked_node::newWritable\((?:this->)?resF,([^,]+),", _nz(k.ev["rhs"]))
                if m:
                    made[k.ev["var"]] = (m.group(1), k)
        for U, (lv, k) in sorted(made.items()):
            handed = [x for x in g.nodes if x.kind == "call" and re.fullmatch(r"saturateHelper|saturate_1|_saturate_1", x.ev["q"].split("::")[-1]) and any(_nz(a_).lstrip("*") == U for a_ in x.ev["args"])]
            if not handed:
                continue
            prov = _provenance(g, f, lv)
            n += 1
            R.functions.add(f["inst"])
            R.paths += 1
            iid = "%s: result node `%s` created at `%s` (%s) and saturated" % (short, U, lv, "+".join(sorted(prov)))
            if "operand" in prov:
                R.fail(iid, where(f, k.line), Finding(R.rule, f["file"], base_name(f["q"]), "result-level",
                       "the result node is created at `%s`, computed from the levels of the operand nodes, and then saturated: when the set node and the relation node both skip a level (fully-reduced set forest, identity in the relation) the result skips it too, reads as `any value` there, and the events filed under that level are never fired on it" % lv, k.line))
            else:
                R.ok(iid, where(f, k.line))
    if n < floor:
        raise AnalysisBroken("level.saturation-provenance: only %d start / result levels found in %s, expected ≥%d" % (n, ", ".join(files), floor))
    R.require_floor(floor, "start and result levels of the saturation operations")
    return R


def rule_saturation_provenance_monolithic(P):
    """C08's share of level.saturation-provenance: the monolithic saturation only"""
    return rule_saturation_provenance(P, files=("operations/satur_sets.cc",), floor=3)


def rule_chain_from_built(P):
    """makeRedundantsTo(p, K, L) / makeIdentitiesTo(p, K, L, in) / chainToLevel(p, K, L, in) add the levels above K: K is the level p sits at.  When p has
    just come out of createReducedNode(U, ev, p) for a node U created here at level LV, K is LV — the signed level, primed levels included.  Seed C02c
    chained the primed-variable node of createEdgeForVar from ABS(level): the unprimed level of that variable was skipped (a quasi-reduced forest then
    holds an edge that skips a level, an identity-reduced one an illegal singleton edge)"""
    R = RuleResult("level.chain-from-built", "wherever a node built here (U = newWritable(F, LV, …); createReducedNode(U, ev, p)) flows into makeRedundantsTo / makeIdentitiesTo / chainToLevel(p, K, …) without p being redefined on the way, K is the same expression as LV")
    n = 0
    seen = set()
    CH = ("makeRedundantsTo", "makeIdentitiesTo", "chainToLevel")
    for f in sorted(P.fns.values(), key=lambda f: (f["file"], f["line"], f["inst"])):
        if not f.get("cfg") or (f["file"], f["line"]) in seen or f["file"].startswith("../"):
            continue
        evs = [e for b in f["cfg"]["blocks"] for e in b["ev"] if e["k"] == "call"]
        if not any(e["q"].split("::")[-1] in CH for e in evs) or not any(e["q"].endswith("::createReducedNode") for e in evs):
            continue
        seen.add((f["file"], f["line"]))
        g = Graph(f)
        made = {}
        for k in g.nodes:
            if k.kind == "ldef" and k.ev.get("rhs"):
                m = re.match(r"(?:MEDDLY::)?unpacked_node::newWritable\(([^,]+),([^,]+)[,)]", _nz(k.ev["rhs"]))
                if m:
                    made.setdefault(k.ev["var"], set()).add(m.group(2))
        reds = [k for k in g.nodes if k.kind == "call" and k.ev["q"].endswith("::createReducedNode") and len(k.ev["args"]) >= 3 and _nz(k.ev["args"][0]) in made]
        for c in g.nodes:
            if c.kind != "call" or c.ev["q"].split("::")[-1] not in CH or len(c.ev["args"]) < 3:
                continue
            pv, K = _nz(c.ev["args"][0]), _nz(c.ev["args"][1])
            if not re.fullmatch(r"\w+", pv):
                continue
            for r in reds:
                if _nz(r.ev["args"][2]) != pv:
                    continue
                redefines = lambda x, r=r, c=c, pv=pv: x.id not in (r.id, c.id) and ((x.kind == "ldef" and x.ev["var"] == pv) or (x.kind == "call" and x.ev["q"].endswith("::createReducedNode") and len(x.ev["args"]) >= 3 and _nz(x.ev["args"][2]) == pv) or (x.kind == "call" and x.ev["q"].split("::")[-1] in CH and _nz(x.ev["args"][0]) == pv))
                R.paths += 1
                if not g.path(r.id, lambda x, c=c: x.id == c.id, avoid=redefines):
                    continue
                n += 1
                R.functions.add(f["inst"])
                lvs = made[_nz(r.ev["args"][0])]
                iid = "%s: %s(%s, %s, …) after createReducedNode(%s built at %s)" % (base_name(f["q"]).replace(M, "")[:48], c.ev["q"].split("::")[-1], pv, K, _nz(r.ev["args"][0]), "/".join(sorted(lvs)))
                # K may reach the call through plain aliases (`const int from = Clevel;`): follow single-definition copies
                K0 = K
                for _ in range(4):
                    ds = [_nz(d.ev.get("rhs") or "") for d in g.nodes if d.kind == "ldef" and d.ev["var"] == K0] if re.fullmatch(r"\w+", K0) else []
                    if len(ds) == 1 and re.fullmatch(r"\w+", ds[0]) and ds[0] not in lvs:
                        K0 = ds[0]
                    else:
                        break
                # also accepted: the level is a local defined as F->getNodeLevel(p) of this very node, i.e. its actual level
                actual = any(d.kind == "ldef" and d.ev["var"] == K0 and re.fullmatch(r"\w+->getNodeLevel\(%s\)" % re.escape(pv), _nz(d.ev.get("rhs") or "")) for d in g.nodes) if re.fullmatch(r"\w+", K0) else False
                ds = [_nz(d.ev.get("rhs") or "") for d in g.nodes if d.kind == "ldef" and d.ev["var"] == K0] if re.fullmatch(r"\w+", K0) else []
                alias = K0 in lvs or (bool(ds) and all(x in lvs for x in ds))
                if K in lvs or actual or alias:
                    R.ok(iid, where(f, c.line), **({"by": "actual level of the node"} if actual and K not in lvs else {}))
                else:
                    R.fail(iid, where(f, c.line), Finding(R.rule, f["file"], base_name(f["q"]), "chain-from:" + c.ev["q"].split("::")[-1],
                           "the node was built at level `%s` but is chained upwards from `%s`: if the two differ (a primed level and its absolute value, say) the levels between them are skipped or duplicated" % ("/".join(sorted(lvs)), K), c.line))
    if n < 20:
        raise AnalysisBroken("level.chain-from-built: only %d built-then-chained nodes found, expected ≥20" % n)
    R.require_floor(20, "built-then-chained nodes")
    return R


RULES = [rule_next_level, rule_terminal_type, rule_index_kind, rule_fold_zeros, rule_diag_fold_total, rule_card_skipped, rule_mark_once, rule_array_extent, rule_position_kind, rule_operand_unpack, rule_chain_args, rule_compare_after_store, rule_skip_rule_consulted, rule_diagonal_lift, rule_identity_needs_rule, rule_saturation_provenance, rule_chain_from_built]
