"""Self-test bank (DESIGN §2.11): every mutant must make the named check report a VIOLATION naming the
expected rule; every refactor must leave it silent.  Each variant is a string replacement applied
to a scratch copy of /repo/src (under $TMPDIR, outside /repo and /verif), analysed — never built or
run — and removed afterwards."""
import json
import os
import shutil
import subprocess
import tempfile
from concurrent.futures import ThreadPoolExecutor

from core import Finding, RuleResult

VERIF = os.path.dirname(os.path.dirname(os.path.abspath(__file__)))
REPO = os.environ.get("MSA_REPO", "/repo")


def load(selectors=None, prop=None):
    bank = json.load(open(os.path.join(VERIF, "selftest", "mutants.json")))
    if prop:
        bank = [m for m in bank if m["property"] == prop]
    if selectors:
        bank = [m for m in bank if any(x in m["id"] for x in selectors)]
    return bank


def make_copy(dst):
    os.makedirs(dst)
    r = subprocess.run(["rsync", "-a", "--exclude", "*.o", "--exclude", "*.lo", "--exclude", ".libs", "--exclude", ".deps", "--exclude", "*.la",
                    REPO + "/src", dst + "/"])
    # 24 = "some source files vanished": a build running in /repo removed a temporary; the sources are complete
    if r.returncode not in (0, 24):
        raise RuntimeError("rsync of %s/src failed with %d" % (REPO, r.returncode))
    if os.path.exists(os.path.join(REPO, "config.h")):
        shutil.copy2(os.path.join(REPO, "config.h"), dst)


def apply(m, root):
    if "edits" in m:
        # a list of regular-expression substitutions (local renames and the like); every one must match at least once
        import re
        for e in m["edits"]:
            p = os.path.join(root, "src", e["file"])
            s = open(p).read()
            lo = s.index(e["from"]) if e.get("from") else 0
            hi = s.index(e["to"], lo) if e.get("to") else len(s)
            body, n = re.subn(e["re"], e["sub"], s[lo:hi])
            if n == 0:
                return "edit %r matches nothing in %s" % (e["re"], e["file"])
            open(p, "w").write(s[:lo] + body + s[hi:])
        return None
    p = os.path.join(root, "src", m["file"])
    s = open(p).read()
    n = s.count(m["old"])
    if m.get("count") == "any":
        if n == 0:
            return "pattern not found"
        s = s.replace(m["old"], m["new"])
    elif "occurrence" in m:
        if n < m["occurrence"]:
            return "pattern occurs %d times, need occurrence %d" % (n, m["occurrence"])
        idx = -1
        for _ in range(m["occurrence"]):
            idx = s.index(m["old"], idx + 1)
        s = s[:idx] + m["new"] + s[idx + len(m["old"]):]
    else:
        if n != m["count"]:
            return "pattern occurs %d times, expected %d" % (n, m["count"])
        s = s.replace(m["old"], m["new"])
    open(p, "w").write(s)
    return None


def run_variant(m, tmp):
    """returns (status, detail): status in caught/MISSED/silent/ALARMED/STALE"""
    root = os.path.join(tmp, m["id"])
    try:
        make_copy(root)
        err = apply(m, root)
        if err:
            return "STALE", err
        env = dict(os.environ, MSA_REPO=root, MSA_NO_EVIDENCE="1", VERIF_TIER="quick")
        r = subprocess.run([os.path.join(VERIF, "check"), m["property"], "--tier", "quick"], capture_output=True, text=True, env=env)
        out = r.stdout
        if m["kind"] == "mutant":
            ok = r.returncode == 1 and ("VIOLATION property=%s" % m["property"]) in out and ("[%s" % m["expect_rule"]) in out
            return ("caught" if ok else "MISSED"), "exit=%d; %s" % (r.returncode, " | ".join(l.strip()[:160] for l in out.splitlines()[-3:]))
        ok = r.returncode == 0 and "VIOLATION" not in out
        return ("silent" if ok else "ALARMED"), "exit=%d; %s" % (r.returncode, " | ".join(l.strip()[:160] for l in out.splitlines()[-3:]))
    finally:
        shutil.rmtree(root, ignore_errors=True)


def run_bank(bank, jobs=3):
    tmp = tempfile.mkdtemp(prefix="msa_selftest_")
    try:
        with ThreadPoolExecutor(max_workers=jobs) as ex:
            return list(zip(bank, ex.map(lambda m: run_variant(m, tmp), bank)))
    finally:
        shutil.rmtree(tmp, ignore_errors=True)


class SelfTest:
    def __init__(self, result, lost):
        self.result = result
        self.lost_teeth = lost


def run_for_property(prop):
    bank = load(prop=prop)
    if not bank:
        return None
    R = RuleResult("selftest", "checker tested both ways on scratch copies of the current tree: each mutant (a compiling edit that breaks one rule instance) is reported with the expected rule, each behaviour-preserving refactor stays silent")
    lost = []
    for m, (status, detail) in run_bank(bank):
        iid = "%s %s (%s): %s" % (m["kind"], m["id"], m.get("expect_rule", "must stay silent"), status)
        if status in ("caught", "silent"):
            R.ok(iid, "selftest/mutants.json", why=m["why"])
        else:
            # a checker that lost its teeth (or alarms on a refactor) is an analysis problem, not a violation of /repo
            R.ok(iid + " — NOT AS EXPECTED: " + detail, "selftest/mutants.json", why=m["why"])
            lost.append("%s %s: %s" % (m["id"], status, detail[:200]))
    R.paths = len(bank)
    return SelfTest(R, lost)
