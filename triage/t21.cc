// triage replay D18: saturation by levels with a relation split by its common diagonal (finalize(SplitOnly / SplitSubtract / …)).
// pregen_relation::splitMxd calls Mp->initIdentity(-k, i, Mu->down(i), FULL_ONLY) without the forest argument: overload resolution binds
// Mu->down(i) to the edge-value parameter and FULL_ONLY (=1) to the node parameter, so the "row" read is node 1, not the child.
// argv[1]: splitting option 0 None 1 SplitOnly 2 SplitSubtract 3 SplitSubtractAll
#include "/repo/src/meddly.h"
#include <iostream>
#include <cstdlib>
using namespace MEDDLY;
int main(int argc, char** argv) {
    int opt = argc > 1 ? atoi(argv[1]) : 1;
    MEDDLY::initialize();
    int sizes[3] = {3, 3, 3};
    domain* dom = domain::createBottomUp(sizes, 3);
    forest* mdd = forest::create(dom, SET, range_type::BOOLEAN, edge_labeling::MULTI_TERMINAL);
    forest* mxd = forest::create(dom, RELATION, range_type::BOOLEAN, edge_labeling::MULTI_TERMINAL);
    pregen_relation* rel = new pregen_relation(mxd);     // by levels
    // event A (top level 3): x3 -> x3+1, x2 unchanged, x1 unchanged; event B (top level 2): x2 -> x2+1 when x1 == 0 (tested, unchanged)
    for (int v = 0; v < 2; v++) {
        dd_edge e(mxd);
        minterm m(mxd); m.setVars(3, v, v + 1); m.setVars(2, DONT_CARE, DONT_CHANGE); m.setVars(1, DONT_CARE, DONT_CHANGE); m.setValue(true);
        m.buildFunction(false, e); rel->addToRelation(e);
        dd_edge e2(mxd);
        minterm m2(mxd); m2.setVars(3, DONT_CARE, DONT_CHANGE); m2.setVars(2, v, v + 1); m2.setVars(1, 0, 0); m2.setValue(true);
        m2.buildFunction(false, e2); rel->addToRelation(e2);
    }
    pregen_relation::splittingOption so[4] = {pregen_relation::None, pregen_relation::SplitOnly, pregen_relation::SplitSubtract, pregen_relation::SplitSubtractAll};
    rel->finalize(so[opt]);
    dd_edge init(mdd), reach(mdd);
    minterm s(mdd); s.setVar(3, 0); s.setVar(2, 0); s.setVar(1, 0); s.setValue(true); s.buildFunction(false, init);
    saturation_operation* sat = SATURATION_FORWARD(mdd, rel, mdd);
    sat->compute(init, reach);
    long c; apply(CARDINALITY, reach, c);
    std::cout << "splitting option " << opt << ": " << c << " reachable states (want 9)\n";
    MEDDLY::cleanup();
    return c == 9 ? 0 : 1;
}
