// triage (candidate): MIN_RANGE / MAX_RANGE on an identity-reduced relation whose function is v on the identity pairs and 0 elsewhere
#include "/repo/src/meddly.h"
#include <iostream>
using namespace MEDDLY;
int main() {
    MEDDLY::initialize();
    int sizes[2] = {2, 2};
    domain* dom = domain::createBottomUp(sizes, 2);
    policies p; p.useDefaults(RELATION); p.setIdentityReduced();
    forest* S = forest::create(dom, RELATION, range_type::INTEGER, edge_labeling::MULTI_TERMINAL, p);
    int bad = 0;
    for (long v = -5; v <= 5; v += 10) {
        dd_edge f(S);
        minterm m(S); m.setVars(2, DONT_CARE, DONT_CHANGE); m.setVars(1, DONT_CARE, DONT_CHANGE); m.setValue(rangeval(v));
        m.buildFunction(rangeval(0L), f);
        long mx, mn; apply(MAX_RANGE, f, mx); apply(MIN_RANGE, f, mn);
        long wmx = v > 0 ? v : 0, wmn = v < 0 ? v : 0;
        std::cout << "f = " << v << " on the identity, 0 elsewhere: MAX_RANGE=" << mx << " (want " << wmx << ") MIN_RANGE=" << mn << " (want " << wmn << ")\n";
        if (mx != wmx || mn != wmn) bad++;
    }
    MEDDLY::cleanup();
    return bad ? 1 : 0;
}
