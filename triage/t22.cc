// triage (candidate): saturation by levels where the union of the relations filed under level k no longer depends on x_k
// e_v = (x2 == v unchanged, x1: 0 -> 1) for v = 0,1,2: each has top level 2; their union is (x2 unchanged, x1: 0->1), a node at level 1.
#include "/repo/src/meddly.h"
#include <iostream>
#include <cstdlib>
using namespace MEDDLY;
int main(int argc, char** argv) {
    int opt = argc > 1 ? atoi(argv[1]) : 0;
    MEDDLY::initialize();
    int sizes[2] = {2, 3};
    domain* dom = domain::createBottomUp(sizes, 2);
    forest* mdd = forest::create(dom, SET, range_type::BOOLEAN, edge_labeling::MULTI_TERMINAL);
    forest* mxd = forest::create(dom, RELATION, range_type::BOOLEAN, edge_labeling::MULTI_TERMINAL);
    pregen_relation* rel = new pregen_relation(mxd);     // by levels
    for (int v = 0; v < 3; v++) {
        dd_edge e(mxd);
        minterm m(mxd); m.setVars(2, v, v); m.setVars(1, 0, 1); m.setValue(true);
        m.buildFunction(false, e);
        std::cout << "event " << v << " has top level " << e.getLevel() << "\n";
        rel->addToRelation(e);
    }
    pregen_relation::splittingOption so[4] = {pregen_relation::None, pregen_relation::SplitOnly, pregen_relation::SplitSubtract, pregen_relation::SplitSubtractAll};
    rel->finalize(so[opt]);
    dd_edge init(mdd), reach(mdd);
    minterm s(mdd); s.setVar(2, 1); s.setVar(1, 0); s.setValue(true); s.buildFunction(false, init);
    saturation_operation* sat = SATURATION_FORWARD(mdd, rel, mdd);
    sat->compute(init, reach);
    long c; apply(CARDINALITY, reach, c);
    std::cout << "splitting option " << opt << ": " << c << " reachable states (want 2)\n";
    MEDDLY::cleanup();
    return c == 2 ? 0 : 1;
}
