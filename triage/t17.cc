// triage (candidate): edge-valued arithmetic with the result edge aliasing an operand: c = a - c, c = a + c
// binary_operation::compute hands res.setEdgeValue() (the edge value inside the result edge) to the operation, whose recursion
// overwrites it before the root edge values av, bv are combined — when res is also ar2 (or ar1), bv (av) has changed by then.
#include "/repo/src/meddly.h"
#include <iostream>
using namespace MEDDLY;
static long at(const dd_edge& e, forest* F, int x2, int x1) { minterm q(F); q.setVar(2, x2); q.setVar(1, x1); rangeval v; e.evaluate(q, v); return v.isPlusInfinity() ? -999 : long(v); }
int main() {
    MEDDLY::initialize();
    int sizes[2] = {2, 2};
    domain* dom = domain::createBottomUp(sizes, 2);
    forest* F = forest::create(dom, SET, range_type::INTEGER, edge_labeling::EVPLUS);
    rangeval infty(range_special::PLUS_INFINITY, range_type::INTEGER);
    int bad = 0;
    for (int op = 0; op < 2; op++) {
        // a(x2,x1) = 10 + 3*x2 + x1 ; c(x2,x1) = 4 + 2*x1  (non-zero root edge values)
        dd_edge a(F), c(F), fresh(F);
        minterm_coll A(4, F), C(4, F);
        for (int x2 = 0; x2 < 2; x2++) for (int x1 = 0; x1 < 2; x1++) {
            A.unused().setVar(2, x2); A.unused().setVar(1, x1); A.unused().setValue(rangeval(long(10 + 3 * x2 + x1))); A.pushUnused();
            C.unused().setVar(2, x2); C.unused().setVar(1, x1); C.unused().setValue(rangeval(long(4 + 2 * x1))); C.pushUnused();
        }
        A.buildFunctionMin(infty, a); C.buildFunctionMin(infty, c);
        if (op == 0) { apply(MINUS, a, c, fresh); apply(MINUS, a, c, c); }
        else         { apply(PLUS, a, c, fresh); apply(PLUS, a, c, c); }
        bool same = (fresh == c);
        std::cout << (op == 0 ? "c = a - c" : "c = a + c") << ": aliased result " << (same ? "equals" : "DIFFERS from") << " the result into a fresh edge; at (1,1): fresh=" << at(fresh, F, 1, 1) << " aliased=" << at(c, F, 1, 1) << "\n";
        if (!same) bad++;
    }
    MEDDLY::cleanup();
    return bad ? 1 : 0;
}
