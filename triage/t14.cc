// triage replay (candidate D14): EV+ MINUS with a == +infinity everywhere and b infinite somewhere.
// "x - infinity raises SUBTRACT_INFINITY" — evplus_minus::simplifiesToFirstArg returns true for OMEGA_INFINITY == a whatever b is,
// so inf - b is answered with a copy of a (= infinity) before any terminal of b is looked at.
#include "/repo/src/meddly.h"
#include <iostream>
using namespace MEDDLY;
int main() {
    MEDDLY::initialize();
    int sizes[2] = {3, 3};
    domain* dom = domain::createBottomUp(sizes, 2);
    forest* F = forest::create(dom, SET, range_type::INTEGER, edge_labeling::EVPLUS);
    rangeval infty(range_special::PLUS_INFINITY, range_type::INTEGER);
    // a = +infinity everywhere
    dd_edge a(F);
    F->createConstant(infty, a);
    // b = 5 where x2 == 0, +infinity elsewhere
    dd_edge b(F);
    minterm m(F); m.setVar(2, 0); m.setVar(1, DONT_CARE); m.setValue(rangeval(5L));
    m.buildFunction(infty, b);
    int rc = 0;
    try {
        dd_edge c(F);
        apply(MINUS, a, b, c);
        minterm q(F); q.setVar(2, 1); q.setVar(1, 0);
        rangeval v; c.evaluate(q, v);
        std::cout << "inf - b returned a value; at a point where b is infinite it is " << (v.isPlusInfinity() ? "inf" : "finite") << " (documented: SUBTRACT_INFINITY)\n";
        rc = 1;
    } catch (MEDDLY::error e) { std::cout << "inf - b raised " << e.getName() << "\n"; }
    // control: finite - b raises
    try {
        dd_edge f(F), c(F);
        F->createConstant(rangeval(7L), f);
        apply(MINUS, f, b, c);
        std::cout << "7 - b returned a value\n"; rc |= 2;
    } catch (MEDDLY::error e) { std::cout << "7 - b raised " << e.getName() << "\n"; }
    // the same shape for division: 0 / b where b is zero somewhere (multi-terminal integers)
    forest* G = forest::create(dom, SET, range_type::INTEGER, edge_labeling::MULTI_TERMINAL);
    dd_edge z(G), d(G);
    G->createConstant(rangeval(0L), z);
    minterm md(G); md.setVar(2, 0); md.setVar(1, DONT_CARE); md.setValue(rangeval(5L));
    md.buildFunction(rangeval(0L), d);      // d = 5 where x2 == 0, 0 elsewhere
    try {
        dd_edge c(G);
        apply(DIVIDE, z, d, c);
        std::cout << "0 / d returned a value although d is zero somewhere (documented: DIVIDE_BY_ZERO)\n"; rc |= 4;
    } catch (MEDDLY::error e) { std::cout << "0 / d raised " << e.getName() << "\n"; }
    try {
        dd_edge f(G), c(G);
        G->createConstant(rangeval(7L), f);
        apply(DIVIDE, f, d, c);
        std::cout << "7 / d returned a value\n"; rc |= 8;
    } catch (MEDDLY::error e) { std::cout << "7 / d raised " << e.getName() << "\n"; }
    MEDDLY::cleanup();
    return rc;
}
