// triage (candidate): copy an EV+ (long) function whose value exceeds 32 bits into an integer MT forest.
// copy_EV::_compute reads the edge value into an `int` before handleForValue: 2^32+5 becomes 5 instead of VALUE_OVERFLOW.
#include "/repo/src/meddly.h"
#include <iostream>
using namespace MEDDLY;
int main() {
    MEDDLY::initialize();
    int sizes[2] = {2, 2};
    domain* dom = domain::createBottomUp(sizes, 2);
    forest* E = forest::create(dom, SET, range_type::INTEGER, edge_labeling::EVPLUS);
    forest* T = forest::create(dom, SET, range_type::INTEGER, edge_labeling::MULTI_TERMINAL);
    rangeval infty(range_special::PLUS_INFINITY, range_type::INTEGER);
    dd_edge e(E), t(T);
    long big = (1L << 32) + 5;
    minterm m(E); m.setVar(2, 1); m.setVar(1, 0); m.setValue(rangeval(big));
    m.buildFunction(infty, e);
    minterm m2(E); m2.setVar(2, 0); m2.setVar(1, 1); m2.setValue(rangeval(7L));
    dd_edge e2(E); m2.buildFunction(infty, e2);
    apply(MINIMUM, e, e2, e);
    int rc = 0;
    try {
        apply(COPY, e, t);
        minterm q(T); q.setVar(2, 1); q.setVar(1, 0);
        rangeval v; t.evaluate(q, v);
        std::cout << "copy returned; value at the point holding 2^32+5 is " << long(v) << " (documented: VALUE_OVERFLOW, or the value itself)\n";
        rc = (long(v) == big) ? 0 : 1;
    } catch (MEDDLY::error x) { std::cout << "copy raised " << x.getName() << "\n"; }
    MEDDLY::cleanup();
    return rc;
}
