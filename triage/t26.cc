// triage (candidate D22): saturation over a relation forest that is not identity-reduced.
// fillSplit subtracts the common diagonal of level k as a node below level k; only an identity-reduced
// forest reads that node as "diagonal entries only".  Model: x2,x1 in {0,1}; s = x1 + 2*x2;
// edges 1>1 3>3 1>3 3>0; initial {1,2}; every state is reachable.
#include "/repo/src/meddly.h"
#include <iostream>
#include <cstdlib>
using namespace MEDDLY;
int main(int argc, char** argv) {
    int rule = argc > 1 ? atoi(argv[1]) : 1;       // 0 identity, 1 fully, 2 quasi
    bool fwd = argc > 2 ? atoi(argv[2]) : 1;
    MEDDLY::initialize();
    int sizes[2] = {2, 2};
    domain* dom = domain::createBottomUp(sizes, 2);
    policies pr(true);
    if (rule == 0) pr.setIdentityReduced(); else if (rule == 1) pr.setFullyReduced(); else pr.setQuasiReduced();
    forest* S = forest::create(dom, SET, range_type::BOOLEAN, edge_labeling::MULTI_TERMINAL);
    forest* R = forest::create(dom, RELATION, range_type::BOOLEAN, edge_labeling::MULTI_TERMINAL, pr);
    dd_edge rel(R);
    auto ev = [&](int f, int t) { minterm m(R); m.setVars(1, f % 2, t % 2); m.setVars(2, f / 2, t / 2); m.setValue(true); dd_edge x(R); m.buildFunction(false, x); rel += x; };
    ev(1, 1); ev(3, 3); ev(1, 3); ev(3, 0);
    dd_edge init(S), sat(S), bfs(S);
    for (int s : {1, 2}) { minterm i0(S); i0.setVar(1, s % 2); i0.setVar(2, s / 2); i0.setValue(true); dd_edge x(S); i0.buildFunction(false, x); init += x; }
    apply(REACHABLE_SATUR(fwd, 1), init, rel, sat);
    apply(REACHABLE_TRAD_NOFS(fwd), init, rel, bfs);
    int bad = 0;
    for (int s = 0; s < 4; s++) {
        minterm q(S); q.setVar(1, s % 2); q.setVar(2, s / 2); rangeval vs, vb; sat.evaluate(q, vs); bfs.evaluate(q, vb);
        if (bool(vs) != bool(vb)) { std::cout << "  state " << s << ": saturation " << bool(vs) << ", breadth-first " << bool(vb) << "\n"; bad++; }
    }
    std::cout << "relation rule " << rule << (fwd ? " fwd" : " bwd") << ": " << bad << " of 4 states differ; edges equal: " << (sat == bfs) << "\n";
    MEDDLY::cleanup();
    return bad ? 1 : 0;
}
