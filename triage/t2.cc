#include "/repo/src/meddly.h"
#include <iostream>
using namespace MEDDLY;
int main(int argc, char** argv) {
    MEDDLY::initialize();
    int sizes[3] = {2,3,2};
    domain* dom = domain::createBottomUp(sizes, 3);
    forest* mdd = forest::create(dom, SET, range_type::BOOLEAN, edge_labeling::MULTI_TERMINAL);
    dd_edge e(mdd);
    mdd->createConstant(true, e);
    forest::destroy(mdd);
    std::cout << "forest of e after destroy: " << e.getForest() << " node " << e.getNode() << std::endl;
    int which = argc>1 ? atoi(argv[1]) : 0;
    try {
        if (which==0) { dd_edge::iterator it = e.begin(); std::cout << "begin ok, atEnd=" << !bool(it) << std::endl; }
        if (which==1) { std::cout << "nodecount " << e.getNodeCount() << std::endl; }
        if (which==2) { std::cout << "level " << e.getLevel() << std::endl; }
        if (which==3) { minterm m(dom, SET); rangeval v; e.evaluate(m, v); }
        if (which==4) { ostream_output out(std::cout); std::vector<size_t> map(4); e.write(out, map); }
        if (which==5) { dd_edge f(e); dd_edge g; g = e; std::cout << "copy ok " << f.getForest() << "\n"; }
        if (which==6) { dd_edge r; apply(COMPLEMENT, e, r); }
        if (which==7) { dd_edge::iterator it = e.random(); std::cout << "random ok\n"; }
    } catch (MEDDLY::error e) {
        std::cout << "error " << e.getName() << std::endl;
    }
    MEDDLY::cleanup();
    return 0;
}
