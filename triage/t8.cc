// triage replay D8: numerical vector-matrix operations on edges whose forest was destroyed
#include "/repo/src/meddly.h"
#include <iostream>
using namespace MEDDLY;
int main(int argc, char** argv) {
    MEDDLY::initialize();
    int sizes[2] = {2,2};
    domain* dom = domain::createBottomUp(sizes, 2);
    forest* idx = forest::create(dom, SET, range_type::INTEGER, edge_labeling::INDEX_SET);
    forest* mx = forest::create(dom, RELATION, range_type::REAL, edge_labeling::MULTI_TERMINAL);
    dd_edge x(idx), A(mx), y(idx);
    forest::destroy(mx);
    forest::destroy(idx);
    int which = argc>1 ? atoi(argv[1]) : 0;
    try {
        numerical_operation* op = which ? MATR_EXPLVECT_MULT(x, A, y) : EXPLVECT_MATR_MULT(x, A, y);
        std::cout << "built " << op << "\n";
    } catch (MEDDLY::error e) {
        std::cout << "error " << e.getName() << std::endl;
    }
    MEDDLY::cleanup();
    return 0;
}
