// triage (candidate D23): a single minterm whose value is the forest's zero, built with default zero.
// fbuilder_forest::setPathToBottom / relPathToBottom make a sparse node of declared size 1, addToNode skips the transparent edge,
// and the node goes to createReducedNode with one uninitialised slot.  The specified function is the constant 0.
#include "/repo/src/meddly.h"
#include <iostream>
#include <cstdlib>
using namespace MEDDLY;
int main(int argc, char** argv) {
    int kind = argc > 1 ? atoi(argv[1]) : 0;   // 0: MT integer set, 1: MT boolean set, 2: MT integer relation
    MEDDLY::initialize();
    int sizes[3] = {3, 3, 3};
    domain* dom = domain::createBottomUp(sizes, 3);
    forest* F = forest::create(dom, kind == 2 ? RELATION : SET, kind == 1 ? range_type::BOOLEAN : range_type::INTEGER, edge_labeling::MULTI_TERMINAL);
    int bad = 0;
    for (int round = 0; round < 4; round++) {
        // churn the unpacked-node free list so that the uninitialised slot holds something
        { dd_edge t(F); minterm w(F); for (int k = 1; k <= 3; k++) { if (kind == 2) w.setVars(k, 2, 1); else w.setVar(k, 2); }
          if (kind == 1) w.setValue(true); else w.setValue(7 + round); w.buildFunction(kind == 1 ? rangeval(false) : rangeval(0L), t); }
        dd_edge e(F);
        minterm m(F);
        for (int k = 1; k <= 3; k++) { if (kind == 2) m.setVars(k, 1, 2); else m.setVar(k, 1); }
        if (kind == 1) m.setValue(false); else m.setValue(0);
        m.buildFunction(kind == 1 ? rangeval(false) : rangeval(0L), e);
        dd_edge zero(F);
        if (kind == 1) F->createConstant(false, zero); else F->createConstant(0L, zero);
        // (evaluating the malformed edge does not terminate in this build: the node's only slot is uninitialised)
        if (e != zero) { bad++; std::cout << "  round " << round << ": edge is node " << e.getNode() << " (level " << e.getLevel() << "), not the constant-zero edge\n"; }
    }
    std::cout << "kind " << kind << ": " << bad << " of 4 zero-valued minterms did not build the constant-zero function\n";
    MEDDLY::cleanup();
    return bad ? 1 : 0;
}
