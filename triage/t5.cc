#include "/repo/src/meddly.h"
#include <iostream>
using namespace MEDDLY;
int main(int argc, char** argv) {
    MEDDLY::initialize();
    const int N = 34;
    int sizes[N]; for (int i=0;i<N;i++) sizes[i]=2;
    domain* dom = domain::createBottomUp(sizes, N);
    policies p; p.useDefaults(false); p.setQuasiReduced(); forest* mdd = forest::create(dom, SET, range_type::BOOLEAN, edge_labeling::MULTI_TERMINAL, p);
    forest* ix = forest::create(dom, SET, range_type::INTEGER, edge_labeling::INDEX_SET);
    dd_edge full(mdd), fe(ix);
    mdd->createConstant(true, full);
    apply(CONVERT_TO_INDEX_SET, full, fe);
    long card; apply(CARDINALITY, full, card);
    std::cout << "true cardinality " << card << "\n";
    std::cout << "getIndexSetCardinality(root) = " << ix->getIndexSetCardinality(fe.getNode()) << "\n";
    minterm m(ix);
    bool ok = fe.getElement((1L<<33)+5, m);
    rangeval v; 
    std::cout << "getElement(2^33+5) -> " << ok << "\n";
    if (ok) { fe.evaluate(m, v); std::cout << "evaluate(member) = " << long(v) << "\n"; }
    MEDDLY::cleanup();
    return 0;
}
