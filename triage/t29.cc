// triage (candidate D24): createReducedNode on a sparse unpacked node written in non-ascending index order.
// The source says it supports that ("check is the node is written in order, if not rearrange it").
//  variant 0: multi-terminal forest — unpacked_node::sort() swaps _edge[], which is null without edge values
//  variant 1: EV* forest — normalize_evstar divides by the *first written* non-zero edge value, the sort comes afterwards:
//             the same function written in two orders gives two different edges
#include "/repo/src/meddly.h"
#include <iostream>
#include <cstdlib>
using namespace MEDDLY;
int main(int argc, char** argv) {
  try {
    int variant = argc > 1 ? atoi(argv[1]) : 0;
    MEDDLY::initialize();
    int sizes[2] = {3, 3};
    domain* dom = domain::createBottomUp(sizes, 2);
    if (variant == 0) {
        forest* F = forest::create(dom, SET, range_type::BOOLEAN, edge_labeling::MULTI_TERMINAL);
        dd_edge one(F); F->createConstant(true, one);
        node_handle t = F->makeRedundantsTo(F->linkNode(one.getNode()), 0, 1);   // all of level 1
        unpacked_node* u = unpacked_node::newWritable(F, 2, 2, SPARSE_ONLY);
        u->setSparse(0, 2, F->linkNode(t));
        u->setSparse(1, 0, t);
        edge_value ev; node_handle n;
        F->createReducedNode(u, ev, n);
        std::cout << "built node " << n << " from indices written 2,0\n";
        F->unlinkNode(n);
    } else {
        policies pr(true); pr.setFullyReduced();
        forest* F = forest::create(dom, RELATION, range_type::REAL, edge_labeling::EVTIMES, pr);
        node_handle built[2]; float val[2];
        for (int order = 0; order < 2; order++) {
            // primed level -2 under row 0: f(x2'=0)=2, f(x2'=2)=4, independent of x1
            unpacked_node* u = unpacked_node::newWritable(F, -2, 2, SPARSE_ONLY);
            if (order == 0) { u->setSparse(0, 0, edge_value(2.0f), OMEGA_NORMAL); u->setSparse(1, 2, edge_value(4.0f), OMEGA_NORMAL); }
            else            { u->setSparse(0, 2, edge_value(4.0f), OMEGA_NORMAL); u->setSparse(1, 0, edge_value(2.0f), OMEGA_NORMAL); }
            edge_value ev; node_handle n;
            F->createReducedNode(u, ev, n);
            built[order] = n; val[order] = float(ev);
            std::cout << "written " << (order ? "2,0" : "0,2") << ": edge <" << float(ev) << ", node " << n << ">\n";
        }
        bool same = built[0] == built[1] && val[0] == val[1];
        std::cout << (same ? "one edge for one function\n" : "same function, two different edges\n");
        MEDDLY::cleanup();
        return same ? 0 : 1;
    }
    MEDDLY::cleanup();
    return 0;
  } catch (MEDDLY::error e) { std::cout << "error " << e.getName() << " at " << e.getFile() << ":" << e.getLine() << "\n"; return 3; }
}
