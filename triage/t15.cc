// triage (candidate): index sets over a domain that has a variable of size 1: getElement(i) for valid i
#include "/repo/src/meddly.h"
#include <iostream>
using namespace MEDDLY;
int main(int argc, char** argv) {
    MEDDLY::initialize();
    int sizes[3] = {2, 1, 3};      // x1 in 0..1, x2 in {0}, x3 in 0..2
    domain* dom = domain::createBottomUp(sizes, 3);
    forest* F = forest::create(dom, SET, range_type::BOOLEAN, edge_labeling::MULTI_TERMINAL);
    forest* I = forest::create(dom, SET, range_type::INTEGER, edge_labeling::INDEX_SET);
    dd_edge s(F), t(F);
    // the full set: 6 members
    F->createConstant(true, s);
    dd_edge idx(I);
    apply(CONVERT_TO_INDEX_SET, s, idx);
    long card = I->getIndexSetCardinality(idx.getNode());
    std::cout << "cardinality header: " << card << " (want 6)\n";
    int bad = 0;
    for (long i = 0; i < 6; i++) {
        minterm m(I);
        bool ok = idx.getElement(i, m);
        std::cout << "getElement(" << i << ") -> " << (ok ? "found" : "NOT FOUND");
        if (ok) std::cout << " (" << m.from(3) << "," << m.from(2) << "," << m.from(1) << ")";
        std::cout << "\n";
        if (!ok) bad++;
    }
    for (long i = 6; i < 9; i++) {
        minterm m(I);
        bool ok = idx.getElement(i, m);
        std::cout << "getElement(" << i << ") -> " << (ok ? "FOUND (wrong)" : "not found") << "\n";
        if (ok) bad++;
    }
    {
        // size-1 variable at the bottom, and a proper subset
        int sz2[2] = {1, 3};
        domain* d2 = domain::createBottomUp(sz2, 2);
        forest* F2 = forest::create(d2, SET, range_type::BOOLEAN, edge_labeling::MULTI_TERMINAL);
        forest* I2 = forest::create(d2, SET, range_type::INTEGER, edge_labeling::INDEX_SET);
        dd_edge a(F2), b(F2), ix(I2);
        minterm ma(F2); ma.setVar(2, 0); ma.setVar(1, 0); ma.setValue(true); ma.buildFunction(false, a);
        minterm mb(F2); mb.setVar(2, 2); mb.setVar(1, 0); mb.setValue(true); mb.buildFunction(false, b);
        apply(UNION, a, b, a);
        apply(CONVERT_TO_INDEX_SET, a, ix);
        for (long i = 0; i < 3; i++) {
            minterm m(I2);
            bool ok = ix.getElement(i, m);
            std::cout << "subset getElement(" << i << ") -> " << (ok ? "found" : "not found");
            if (ok) std::cout << " (" << m.from(2) << "," << m.from(1) << ")";
            std::cout << "\n";
            bool want = i < 2;
            if (ok != want) bad++;
            if (ok && m.from(2) != (i == 0 ? 0 : 2)) bad++;
        }
    }
    MEDDLY::cleanup();
    return bad ? 1 : 0;
}
