#include "/repo/src/meddly.h"
#include <iostream>
using namespace MEDDLY;
int main() {
    MEDDLY::initialize();
    int sizes[3] = {2,3,2};
    domain* dom = domain::createBottomUp(sizes, 3);
    forest* mdd = forest::create(dom, SET, range_type::BOOLEAN, edge_labeling::MULTI_TERMINAL);
    forest* ix = forest::create(dom, SET, range_type::INTEGER, edge_labeling::INDEX_SET);
    dd_edge empty(mdd), ie(ix);
    mdd->createConstant(false, empty);
    apply(CONVERT_TO_INDEX_SET, empty, ie);
    std::cout << "index-set node for empty set: " << ie.getNode() << std::endl;
    minterm m(ix);
    try {
        bool ok = ie.getElement(0, m);
        std::cout << "getElement(0) on empty -> " << ok << std::endl;
    } catch (MEDDLY::error e) {
        std::cout << "error " << e.getName() << std::endl;
    }
    // full set
    dd_edge full(mdd), fe(ix);
    mdd->createConstant(true, full);
    apply(CONVERT_TO_INDEX_SET, full, fe);
    for (long i=-1; i<14; i++) {
        bool ok = fe.getElement(i, m);
        std::cout << "full getElement(" << i << ") -> " << ok << " [" << m.from(3) << m.from(2) << m.from(1) << "]\n";
    }
    MEDDLY::cleanup();
    return 0;
}
