// triage (candidate): INTERSECTION of the identity relation held in identity-reduced forest I1 with the identity relation held in a
// distinct identity-reduced forest I2.  Both roots are the terminal; inter_mt::_compute has terminal cases for "terminal and (level 0 or fully
// reduced)" and for "same node in the same forest" only.
#include "/repo/src/meddly.h"
#include <iostream>
using namespace MEDDLY;
int main() {
    MEDDLY::initialize();
    int sizes[2] = {2, 3};
    domain* dom = domain::createBottomUp(sizes, 2);
    policies p; p.useDefaults(RELATION); p.setIdentityReduced();
    forest* I1 = forest::create(dom, RELATION, range_type::BOOLEAN, edge_labeling::MULTI_TERMINAL, p);
    forest* I2 = forest::create(dom, RELATION, range_type::BOOLEAN, edge_labeling::MULTI_TERMINAL, p);
    dd_edge a(I1), b(I2), c(I1);
    minterm ma(I1); ma.setVars(2, DONT_CARE, DONT_CHANGE); ma.setVars(1, DONT_CARE, DONT_CHANGE); ma.setValue(true); ma.buildFunction(false, a);
    minterm mb(I2); mb.setVars(2, DONT_CARE, DONT_CHANGE); mb.setVars(1, DONT_CARE, DONT_CHANGE); mb.setValue(true); mb.buildFunction(false, b);
    std::cout << "roots: " << a.getNode() << " " << b.getNode() << std::endl;
    apply(INTERSECTION, a, b, c);
    long n; apply(CARDINALITY, c, n);
    std::cout << "identity(I1) * identity(I2) has " << n << " pairs (want 6)\n";
    MEDDLY::cleanup();
    return n == 6 ? 0 : 1;
}
