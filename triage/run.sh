#!/bin/sh
# builds the triage replays against /repo's built library and prints each outcome.
# These are NOT checks: they are the concrete confirmation that a static report on the unchanged
# tree is a genuine defect (interface requirement), kept so the confirmation can be repeated.
LIB=${1:-/repo/src/.libs/libmeddly.a}
INC=${2:-/repo}
for t in t1 t2 t5 t6 t8 t10 t11 t12 t13 t14 t15 t16 t17 t19 t20 t21 t22 t23 t24 t25 t26 t27 t28 t29 t30 t31 t32; do g++ -std=gnu++17 -I$INC/src -I$INC $t.cc $LIB -lgmp -o /tmp/triage_$t || exit 2; done
run() { name=$1; shift; out=$(timeout 60 "$@" 2>&1); rc=$?; printf '%-28s exit=%-4s %s\n' "$name" "$rc" "$(echo "$out" | tail -1 | cut -c1-90)"; }
run "D1 getElement(empty set)" /tmp/triage_t1
run "D2 begin() orphaned" /tmp/triage_t2 0
run "D2 random() orphaned" /tmp/triage_t2 7
run "D3 write() orphaned" /tmp/triage_t2 4
run "D5 cardinality 2^34" /tmp/triage_t5
run "D6 a+b orphaned" /tmp/triage_t6 0
run "D6 a+=b orphaned" /tmp/triage_t6 1
run "D8 EXPLVECT_MATR_MULT" /tmp/triage_t8 0
run "D8 MATR_EXPLVECT_MULT" /tmp/triage_t8 1
run "D10 satur diagonal split" /tmp/triage_t10
run "D11 union I1,I1->I2 (ident)" /tmp/triage_t11 0 0
run "D11 difference (quasi)" /tmp/triage_t11 1 2
run "D12 MAX/MIN_RANGE zeros" /tmp/triage_t12
run "D13 reorder 6 vars HIGHEST_INV" /tmp/triage_t13 6 1
run "known: inf-b, 0/b shortcuts" /tmp/triage_t14
run "D15 getElement size-1 var" /tmp/triage_t15
run "D16 EV+ 2^32+5 -> MT int" /tmp/triage_t16
run "D17 c = a - c aliasing" /tmp/triage_t17
run "known: ident MT -> EV+ copy" /tmp/triage_t19
run "known: range on ident relation" /tmp/triage_t20
run "D18 by-levels SplitSubtract" /tmp/triage_t21 2
run "D19 by-levels collapsed union" /tmp/triage_t22 0
run "D20 identity * identity, 2 forests" /tmp/triage_t23
run "known: stale satfire cache" /tmp/triage_t24
run "D21 integer-distance saturation" /tmp/triage_t25 1
run "D22 satur, fully-reduced relation" /tmp/triage_t26 1 1
run "D22 satur, quasi-reduced relation" /tmp/triage_t26 2 1
run "known: pregen, fully-reduced rel" /tmp/triage_t27 1 1
run "D23 zero-valued minterm (MT int set)" /tmp/triage_t28 0
run "D23 zero-valued minterm (relation)" /tmp/triage_t28 2
run "D24 unsorted sparse node, MT" /tmp/triage_t29 0
run "D24 unsorted sparse node, EV*" /tmp/triage_t29 1
run "known: pregen, middle variable free" /tmp/triage_t30
run "D26 DIST_INC fully -> quasi" /tmp/triage_t31
run "known: +infinity -> MT copy" /tmp/triage_t32
