// triage replay D13: six of the eight reordering heuristics allocate `new int[size]` (size = number of variables) and then write
// var2level[level2var[i]] for i = 1..size and read var2level[getVarByLevel(k)] — indices 1..size: one int past the end.
// argv[1] = number of variables, argv[2] = heuristic (0 LOWEST_INVERSION 1 HIGHEST_INVERSION 2 LOWEST_COST 3 LOWEST_MEMORY 4 RANDOM 5 LARC 6 SINK_DOWN 7 BRING_UP)
// Run under valgrind to see the invalid write/read; with 6 or 10 variables (24/40-byte arrays: no malloc padding) glibc aborts in delete[].
#include "/repo/src/meddly.h"
#include <iostream>
#include <cstdlib>
#include <vector>
using namespace MEDDLY;
int main(int argc, char** argv) {
    int N = argc > 1 ? atoi(argv[1]) : 6;
    int h = argc > 2 ? atoi(argv[2]) : 1;
    MEDDLY::initialize();
    std::vector<int> sizes(N, 2);
    domain* dom = domain::createBottomUp(sizes.data(), N);
    policies p;
    p.useDefaults(SET);
    switch (h) {
        case 0: p.setLowestInversion(); break;
        case 1: p.setHighestInversion(); break;
        case 2: p.setLowestCost(); break;
        case 3: p.setLowestMemory(); break;
        case 4: p.setRandom(); break;
        case 5: p.setLARC(); break;
        case 6: p.setSinkDown(); break;
        default: p.setBringUp(); break;
    }
    forest* F = forest::create(dom, SET, range_type::BOOLEAN, edge_labeling::MULTI_TERMINAL, p);
    dd_edge e(F);
    minterm m(F);
    for (int k = 1; k <= N; k++) m.setVar(k, k % 2);
    m.setValue(true);
    m.buildFunction(false, e);
    std::vector<int> order(N + 1);
    order[0] = 0;
    for (int k = 1; k <= N; k++) order[k] = N + 1 - k;   // reversed
    F->reorderVariables(order.data());
    long c; apply(CARDINALITY, e, c);
    std::cout << "N=" << N << " heuristic " << h << ": reordered, |e| = " << c << "\n";
    MEDDLY::cleanup();
    return 0;
}
