// triage replay D9: domain written to an exchange file and re-created from it
#include "/repo/src/meddly.h"
#include <iostream>
#include <sstream>
using namespace MEDDLY;
int main() {
    MEDDLY::initialize();
    int sizes[3] = {2,3,4};   // bottom-up: level 1 has 2 values, level 3 has 4
    domain* dom = domain::createBottomUp(sizes, 3);
    std::ostringstream os;
    { ostream_output out(os); dom->write(out); }
    std::cout << "file: " << os.str();
    std::istringstream is(os.str());
    istream_input in(is);
    domain* d2 = domain::create(in);
    int bad = 0;
    for (unsigned k=1; k<=3; k++) {
        std::cout << "level " << k << ": original bound " << dom->getVariableBound(k) << ", re-created bound " << d2->getVariableBound(k) << "\n";
        if (dom->getVariableBound(k) != d2->getVariableBound(k)) bad++;
    }
    MEDDLY::cleanup();
    return bad ? 1 : 0;
}
