// triage (candidate): COPY from an EV+ / index-set source that contains +infinity into a multi-terminal forest.
// copy_EV::_compute carries the comment "if (OMEGA_INFINITY == ap) then what???" and goes on to copy the accumulated edge value.
// The set {1, 4, 6} of an 8-state domain as an index set: members map to 0,1,2, everything else to +infinity.
#include "/repo/src/meddly.h"
#include <iostream>
#include <cstdlib>
using namespace MEDDLY;
int main() {
    MEDDLY::initialize();
    int sizes[3] = {2, 2, 2};
    domain* dom = domain::createBottomUp(sizes, 3);
    forest* S = forest::create(dom, SET, range_type::BOOLEAN, edge_labeling::MULTI_TERMINAL);
    forest* I = forest::create(dom, SET, range_type::INTEGER, edge_labeling::INDEX_SET);
    forest* MI = forest::create(dom, SET, range_type::INTEGER, edge_labeling::MULTI_TERMINAL);
    dd_edge set(S), idx(I), mt(MI);
    for (int s : {1, 4, 6}) { minterm m(S); m.setVar(1, s & 1); m.setVar(2, (s >> 1) & 1); m.setVar(3, (s >> 2) & 1); m.setValue(true); dd_edge x(S); m.buildFunction(false, x); set += x; }
    apply(CONVERT_TO_INDEX_SET, set, idx);
    apply(COPY, idx, mt);
    int finite_nonmembers = 0;
    for (int s = 0; s < 8; s++) {
        minterm q(I); q.setVar(1, s & 1); q.setVar(2, (s >> 1) & 1); q.setVar(3, (s >> 2) & 1);
        minterm qm(MI); qm.setVar(1, s & 1); qm.setVar(2, (s >> 1) & 1); qm.setVar(3, (s >> 2) & 1);
        rangeval vi, vm; idx.evaluate(q, vi); mt.evaluate(qm, vm);
        std::cout << "  state " << s << ": index set " << (vi.isNormal() ? std::to_string(long(vi)) : std::string("+oo")) << "   MT integer copy " << long(vm) << "\n";
        if (!vi.isNormal()) finite_nonmembers++;
    }
    std::cout << finite_nonmembers << " non-members carry an ordinary integer in the copy (no conversion of +infinity is documented; the value is the partial index sum)\n";
    MEDDLY::cleanup();
    return finite_nonmembers ? 1 : 0;
}
