// triage replay D11: UNION / INTERSECTION / DIFFERENCE of two relations held in forest I1 with the result in a
// *different* relation forest I2 of the same reduction rule.  The binary operation's terminal cases call
// copy_MT::compute(L, in, …) at primed levels L<0; copy_MT's relation-node path (taken when argument and result
// forest have the same reduction rule) assumes it is entered at an unprimed level.
// argv[1]: 0 identity-reduced, 1 quasi-reduced, 2 fully-reduced;  argv[2]: 0 union 1 intersection 2 difference
#include "/repo/src/meddly.h"
#include <iostream>
#include <vector>
#include <cstdlib>
using namespace MEDDLY;

static const int K = 3;
static const int SZ[K] = {2, 3, 2};

struct Oracle {
    // explicit relation over (from, to) pairs of states
    std::vector<bool> m;
    Oracle() : m(12 * 12, false) {}
};

static int idx(const int* v) { return (v[3] * 3 + v[2]) * 2 + v[1]; }

int main(int argc, char** argv) {
    int rule = argc > 1 ? atoi(argv[1]) : 0;
    int opn = argc > 2 ? atoi(argv[2]) : 0;
    unsigned seed = argc > 3 ? atoi(argv[3]) : 1;
    MEDDLY::initialize();
    int sizes[K] = {2, 3, 2};
    domain* dom = domain::createBottomUp(sizes, K);
    policies p;
    p.useDefaults(RELATION);
    if (rule == 0) p.setIdentityReduced();
    if (rule == 1) p.setQuasiReduced();
    if (rule == 2) p.setFullyReduced();
    forest* F1 = forest::create(dom, RELATION, range_type::BOOLEAN, edge_labeling::MULTI_TERMINAL, p);
    forest* F2 = forest::create(dom, RELATION, range_type::BOOLEAN, edge_labeling::MULTI_TERMINAL, p);
    srand(seed);
    int bad = 0, crashes = 0;
    for (int round = 0; round < 40; round++) {
        Oracle oa, ob;
        dd_edge A(F1), B(F1);
        for (int which = 0; which < 2; which++) {
            dd_edge& E = which ? B : A;
            Oracle& O = which ? ob : oa;
            int n = 1 + rand() % 6;
            for (int t = 0; t < n; t++) {
                minterm mt(F1);
                int un[K + 1], pr[K + 1];
                for (int k = 1; k <= K; k++) {
                    un[k] = rand() % SZ[k - 1];
                    pr[k] = rand() % SZ[k - 1];
                    mt.setVars(k, un[k], pr[k]);
                }
                mt.setValue(true);
                dd_edge one(F1);
                mt.buildFunction(false, one);
                apply(UNION, E, one, E);
                O.m[idx(un) * 12 + idx(pr)] = true;
            }
        }
        dd_edge C(F2);
        try {
            if (opn == 0) apply(UNION, A, B, C);
            if (opn == 1) apply(INTERSECTION, A, B, C);
            if (opn == 2) apply(DIFFERENCE, A, B, C);
            int un[K + 1], pr[K + 1];
            minterm q(F2);
            for (un[3] = 0; un[3] < 2; un[3]++) for (un[2] = 0; un[2] < 3; un[2]++) for (un[1] = 0; un[1] < 2; un[1]++)
            for (pr[3] = 0; pr[3] < 2; pr[3]++) for (pr[2] = 0; pr[2] < 3; pr[2]++) for (pr[1] = 0; pr[1] < 2; pr[1]++) {
                for (int k = 1; k <= K; k++) q.setVars(k, un[k], pr[k]);
                bool got;
                C.evaluate(q, got);
                bool a = oa.m[idx(un) * 12 + idx(pr)], b = ob.m[idx(un) * 12 + idx(pr)];
                bool want = opn == 0 ? (a || b) : opn == 1 ? (a && b) : (a && !b);
                if (got != want) bad++;
            }
        } catch (MEDDLY::error e) {
            crashes++;
            if (crashes == 1) std::cout << "round " << round << ": error " << e.getName() << " at " << e.getFile() << ":" << e.getLine() << "\n";
        }
    }
    std::cout << "rule " << rule << " op " << opn << ": " << bad << " wrong values, " << crashes << " exceptions in 40 rounds\n";
    MEDDLY::cleanup();
    return (bad || crashes) ? 1 : 0;
}
