// triage replay D10: saturation on a relation with a non-trivial [0,0] diagonal at a split level
// (saturation_set_mtrel::fillSplit hands the borrowed handle Brn->getDiagonal(0) to dd_edge::set, which owns without linking)
#include "/repo/src/meddly.h"
#include <iostream>
using namespace MEDDLY;
int main() {
    MEDDLY::initialize();
    int sizes[3] = {4,4,4};
    domain* dom = domain::createBottomUp(sizes, 3);
    forest* mdd = forest::create(dom, SET, range_type::BOOLEAN, edge_labeling::MULTI_TERMINAL);
    forest* mxd = forest::create(dom, RELATION, range_type::BOOLEAN, edge_labeling::MULTI_TERMINAL);
    // relation: x3: 0->0, x2: don't care / don't change, x1: 3->3
    minterm r(mxd);
    r.setVars(3, 0, 0); r.setVars(2, DONT_CARE, DONT_CHANGE); r.setVars(1, 3, 3);
    r.setValue(true);
    dd_edge R(mxd);
    r.buildFunction(false, R);
    // initial set {(x3,x2,x1) = (0,3,0), (1,2,1)}
    dd_edge S(mdd), S2(mdd);
    minterm a(mdd); a.setVar(3,0); a.setVar(2,3); a.setVar(1,0); a.setValue(true); a.buildFunction(false, S);
    minterm b(mdd); b.setVar(3,1); b.setVar(2,2); b.setVar(1,1); b.setValue(true); b.buildFunction(false, S2);
    apply(UNION, S, S2, S);
    dd_edge reach(mdd);
    try {
        apply(REACHABLE_SATUR(true, 1), S, R, reach);
        long c; apply(CARDINALITY, reach, c);
        std::cout << "saturation ok, |reach| = " << c << " (the relation only has self loops: expected 2)\n";
    } catch (MEDDLY::error e) { std::cout << "error " << e.getName() << "\n"; }
    MEDDLY::cleanup();
    return 0;
}
