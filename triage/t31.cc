// triage (candidate D26): DIST_INC from a fully-reduced into a quasi-reduced multi-terminal integer forest.
// dist_inc_mt::_compute builds its node at the argument's level Alevel and then chains the result up "from level 0":
// makeRedundantsTo(cp, 0, L) stacks redundant nodes for levels 1..L on top of a node that already sits at Alevel.
#include "/repo/src/meddly.h"
#include <iostream>
#include <cstdlib>
using namespace MEDDLY;
int main() {
    MEDDLY::initialize();
    int sizes[3] = {2, 2, 2};
    domain* dom = domain::createBottomUp(sizes, 3);
    policies pf(false); pf.setFullyReduced();
    policies pq(false); pq.setQuasiReduced();
    forest* FF = forest::create(dom, SET, range_type::INTEGER, edge_labeling::MULTI_TERMINAL, pf);
    forest* FQ = forest::create(dom, SET, range_type::INTEGER, edge_labeling::MULTI_TERMINAL, pq);
    // a(x3,x2,x1) = 4 if x1 == 1 else 2   (a node at level 1 only)
    dd_edge a(FF), two(FF);
    FF->createConstant(2L, two);
    { minterm m(FF); m.setVar(1, 1); m.setVar(2, DONT_CARE); m.setVar(3, DONT_CARE); m.setValue(4); m.buildFunction(rangeval(2L), a); }
    std::cout << "argument root at level " << a.getLevel() << "\n";
    dd_edge c(FQ);
    apply(DIST_INC, a, c);
    std::cout << "result root at level " << c.getLevel() << "\n";
    int bad = 0;
    for (int s = 0; s < 8; s++) {
        minterm q(FQ); q.setVar(1, s & 1); q.setVar(2, (s >> 1) & 1); q.setVar(3, (s >> 2) & 1);
        minterm qa(FF); qa.setVar(1, s & 1); qa.setVar(2, (s >> 1) & 1); qa.setVar(3, (s >> 2) & 1);
        rangeval va, vc; a.evaluate(qa, va); c.evaluate(q, vc);
        if (long(vc) != long(va) + 1) { bad++; std::cout << "  state " << s << ": argument " << long(va) << ", result " << long(vc) << " (want " << long(va) + 1 << ")\n"; }
    }
    std::cout << bad << " of 8 assignments wrong\n";
    dd_edge want(FQ);
    { minterm m(FQ); m.setVar(1, 1); m.setVar(2, DONT_CARE); m.setVar(3, DONT_CARE); m.setValue(5); m.buildFunction(rangeval(3L), want); }
    if (c != want) { bad++; std::cout << "same function, different edges: DIST_INC gives node " << c.getNode() << ", the builder node " << want.getNode() << "\n"; }
    // walk the result: every child must sit strictly below its parent
    for (node_handle p = c.getNode(); p > 0; ) {
        unpacked_node* u = unpacked_node::newFromNode(FQ, p, FULL_ONLY);
        node_handle d = u->down(0);
        if (d > 0 && FQ->getNodeLevel(d) >= FQ->getNodeLevel(p)) { bad++; std::cout << "node " << p << " at level " << FQ->getNodeLevel(p) << " has child " << d << " at level " << FQ->getNodeLevel(d) << "\n"; }
        unpacked_node::Recycle(u);
        if (d > 0 && FQ->getNodeLevel(d) >= FQ->getNodeLevel(p)) break;
        p = d;
    }
    MEDDLY::cleanup();
    return bad ? 1 : 0;
}
