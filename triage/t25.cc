// triage (candidate): integer-distance saturation (MT integer set forest, -1 = unreachable) against breadth-first distances
#include "/repo/src/meddly.h"
#include <iostream>
#include <cstdlib>
using namespace MEDDLY;
int main(int argc, char** argv) {
    int variant = argc > 1 ? atoi(argv[1]) : 0;
    MEDDLY::initialize();
    int sizes[2] = {3, 3};
    domain* dom = domain::createBottomUp(sizes, 2);
    forest* S = forest::create(dom, SET, range_type::INTEGER, edge_labeling::MULTI_TERMINAL);
    forest* R = forest::create(dom, RELATION, range_type::BOOLEAN, edge_labeling::MULTI_TERMINAL);
    dd_edge rel(R);
    auto ev = [&](int f2, int t2, int f1, int t1) { minterm m(R); m.setVars(2, f2, t2); m.setVars(1, f1, t1); m.setValue(true); dd_edge x(R); m.buildFunction(false, x); rel += x; };
    if (variant == 0) { ev(DONT_CARE, DONT_CHANGE, 0, 1); ev(DONT_CARE, DONT_CHANGE, 1, 2); }                 // x1: 0->1->2
    if (variant == 1) { ev(DONT_CARE, DONT_CHANGE, 0, 1); ev(0, 1, 1, 1); ev(1, 2, DONT_CARE, DONT_CHANGE); }  // mixed levels
    if (variant == 2) { ev(0, 1, DONT_CARE, DONT_CHANGE); ev(1, 2, DONT_CARE, DONT_CHANGE); ev(DONT_CARE, DONT_CHANGE, 0, 2); ev(2, 2, 2, 1); }
    dd_edge init(S), sat(S), bfs(S);
    minterm i0(S); i0.setVar(2, 0); i0.setVar(1, 0); i0.setValue(rangeval(0L)); i0.buildFunction(rangeval(-1L), init);
    apply(REACHABLE_SATUR(true, 1), init, rel, sat);
    apply(REACHABLE_TRAD_NOFS(true), init, rel, bfs);
    int bad = 0;
    for (int a = 0; a < 3; a++) for (int b = 0; b < 3; b++) {
        minterm q(S); q.setVar(2, a); q.setVar(1, b); rangeval vs, vb; sat.evaluate(q, vs); bfs.evaluate(q, vb);
        if (long(vs) != long(vb)) { std::cout << "  (" << a << "," << b << "): saturation " << long(vs) << ", breadth-first " << long(vb) << "\n"; bad++; }
    }
    std::cout << "variant " << variant << ": " << bad << " of 9 states differ; edges equal: " << (sat == bfs) << "\n";
    MEDDLY::cleanup();
    return bad ? 1 : 0;
}
