// triage replay D12: MAX_RANGE / MIN_RANGE scan nodes unpacked SPARSE_ONLY, so the implicit zero entries of a node are never
// folded in: a function taking the values {0, -2, -5} reports maximum -2; one taking {0, 3, 7} reports minimum 3.
#include "/repo/src/meddly.h"
#include <iostream>
using namespace MEDDLY;
int main() {
    MEDDLY::initialize();
    int sizes[2] = {3, 3};
    domain* dom = domain::createBottomUp(sizes, 2);
    forest* F = forest::create(dom, SET, range_type::INTEGER, edge_labeling::MULTI_TERMINAL);
    int bad = 0;
    try {
    for (int sign = -1; sign <= 1; sign += 2) {
        dd_edge f(F);
        // f(x2,x1) = sign*2 at (0,1), sign*5 at (2,2), 0 elsewhere
        minterm a(F); a.setVar(2, 0); a.setVar(1, 1); a.setValue(sign * 2);
        minterm b(F); b.setVar(2, 2); b.setVar(1, 2); b.setValue(sign * 5);
        dd_edge ea(F), eb(F);
        a.buildFunction(0, ea); b.buildFunction(0, eb);
        apply(PLUS, ea, eb, f);
        long mx, mn;
        apply(MAX_RANGE, f, mx);
        apply(MIN_RANGE, f, mn);
        long wmx = sign < 0 ? 0 : 5, wmn = sign < 0 ? -5 : 0;
        std::cout << "values {0," << sign * 2 << "," << sign * 5 << "}: MAX_RANGE=" << mx << " (want " << wmx << ")  MIN_RANGE=" << mn << " (want " << wmn << ")\n";
        if (mx != wmx || mn != wmn) bad++;
    }
    } catch (MEDDLY::error e) { std::cout << "error " << e.getName() << " at " << e.getFile() << ":" << e.getLine() << "\n"; return 3; }
    MEDDLY::cleanup();
    return bad ? 1 : 0;
}
