// triage (candidate): saturation over a partitioned relation whose events live in a relation forest that is not identity reduced.
// One event: x1: 0 -> 1, x2 free (any -> any).  In a fully-reduced relation forest that is a node at level 1 only;
// sat_pregen reads the skipped level 2 as "x2 unchanged".  From (x2=0,x1=0) the union relation reaches (x2=*, x1=1): 1 + 3 states.
#include "/repo/src/meddly.h"
#include <iostream>
#include <cstdlib>
using namespace MEDDLY;
int main(int argc, char** argv) {
    int rule = argc > 1 ? atoi(argv[1]) : 1;   // 0 identity, 1 fully, 2 quasi
    bool byevents = argc > 2 ? atoi(argv[2]) : 1;
    MEDDLY::initialize();
    int sizes[2] = {2, 3};
    domain* dom = domain::createBottomUp(sizes, 2);
    policies pr(true);
    if (rule == 0) pr.setIdentityReduced(); else if (rule == 1) pr.setFullyReduced(); else pr.setQuasiReduced();
    forest* mdd = forest::create(dom, SET, range_type::BOOLEAN, edge_labeling::MULTI_TERMINAL);
    forest* mxd = forest::create(dom, RELATION, range_type::BOOLEAN, edge_labeling::MULTI_TERMINAL, pr);
    dd_edge e(mxd);
    minterm m(mxd); m.setVars(2, DONT_CARE, DONT_CARE); m.setVars(1, 0, 1); m.setValue(true);
    m.buildFunction(false, e);
    std::cout << "event has top level " << e.getLevel() << "\n";
    pregen_relation* rel = byevents ? new pregen_relation(mxd, 1) : new pregen_relation(mxd);
    rel->addToRelation(e);
    rel->finalize(pregen_relation::None);
    dd_edge init(mdd), reach(mdd), bfs(mdd);
    minterm s(mdd); s.setVar(2, 0); s.setVar(1, 0); s.setValue(true); s.buildFunction(false, init);
    saturation_operation* sat = SATURATION_FORWARD(mdd, rel, mdd);
    sat->compute(init, reach);
    apply(REACHABLE_TRAD_NOFS(true), init, e, bfs);
    long c, cb; apply(CARDINALITY, reach, c); apply(CARDINALITY, bfs, cb);
    std::cout << "relation rule " << rule << (byevents ? " by events" : " by levels") << ": saturation " << c << " states, breadth-first on the union " << cb << " (want 4)\n";
    MEDDLY::cleanup();
    return c == cb ? 0 : 1;
}
