// triage (candidate): COPY from an identity-reduced multi-terminal relation into an EV+ relation.
// copy_MT rebuilds the source's skipped identity levels with resF->makeIdentitiesTo(): in the EV+ target the off-diagonal entries of such a
// pattern are the target's transparent value (+infinity), in the source they are 0.
#include "/repo/src/meddly.h"
#include <iostream>
using namespace MEDDLY;
int main() {
    MEDDLY::initialize();
    int sizes[2] = {2, 2};
    domain* dom = domain::createBottomUp(sizes, 2);
    policies p; p.useDefaults(RELATION); p.setIdentityReduced();
    forest* S = forest::create(dom, RELATION, range_type::INTEGER, edge_labeling::MULTI_TERMINAL, p);
    forest* T = forest::create(dom, RELATION, range_type::INTEGER, edge_labeling::EVPLUS, p);
    // f = 3 wherever x2' == x2 and x1' == x1 (don't care / don't change at both levels), 0 elsewhere
    dd_edge f(S), g(T);
    minterm m(S); m.setVars(2, DONT_CARE, DONT_CHANGE); m.setVars(1, DONT_CARE, DONT_CHANGE); m.setValue(rangeval(3L));
    m.buildFunction(rangeval(0L), f);
    int bad = 0;
    try {
        apply(COPY, f, g);
        for (int a2 = 0; a2 < 2; a2++) for (int b2 = 0; b2 < 2; b2++) for (int a1 = 0; a1 < 2; a1++) for (int b1 = 0; b1 < 2; b1++) {
            minterm q(S); q.setVars(2, a2, b2); q.setVars(1, a1, b1);
            minterm r(T); r.setVars(2, a2, b2); r.setVars(1, a1, b1);
            rangeval vs, vt; f.evaluate(q, vs); g.evaluate(r, vt);
            long s = long(vs), t = vt.isPlusInfinity() ? -1 : long(vt);
            if (s != t) { if (!bad) std::cout << "first difference at (" << a2 << "->" << b2 << ", " << a1 << "->" << b1 << "): source " << s << ", copy " << (t < 0 ? "+infinity" : "finite") << " " << t << "\n"; bad++; }
        }
        std::cout << bad << " of 16 assignments differ between the source and its EV+ copy\n";
    } catch (MEDDLY::error x) { std::cout << "error " << x.getName() << "\n"; bad = 99; }
    MEDDLY::cleanup();
    return bad ? 1 : 0;
}
