// triage replay (known finding): two successive REACHABLE_SATUR calls in the same forests with relations that share a top-level sub-node
// but differ below it: saturation's cached recursion reads the per-call split (top_exactly / top_at_or_below), the compute-table key does not
// identify the relation.  Reproducer written by the sub-agent of seed C08c on the unmodified library.
#include "/repo/src/meddly.h"
#include <cstdio>
using namespace MEDDLY;
int main() {
    MEDDLY::initialize();
    int sizes[3] = {3,3,3};
    domain* d = domain::createBottomUp(sizes, 3);
    forest* fs = forest::create(d, SET, range_type::BOOLEAN, edge_labeling::MULTI_TERMINAL);
    forest* fr = forest::create(d, RELATION, range_type::BOOLEAN, edge_labeling::MULTI_TERMINAL);
    auto ev = [&](int f3,int t3,int f2,int t2,int f1,int t1, dd_edge &e) {
        minterm m(fr);
        m.setVars(3,f3,t3); m.setVars(2,f2,t2); m.setVars(1,f1,t1);
        m.setValue(true);
        dd_edge x(fr); m.buildFunction(false, x);
        e += x;
    };
    dd_edge R1(fr), R2(fr);
    ev(0,1,0,1,DONT_CARE,DONT_CHANGE,R1);
    ev(DONT_CARE,DONT_CHANGE,1,1,0,1,R1);
    ev(0,1,0,1,DONT_CARE,DONT_CHANGE,R2);
    ev(DONT_CARE,DONT_CHANGE,1,1,0,2,R2);
    minterm i0(fs); i0.setAllVars(0); i0.setValue(true);
    dd_edge I(fs); i0.buildFunction(false, I);
    dd_edge o1(fs), o2(fs), o2t(fs);
    apply(REACHABLE_SATUR(true,1), I, R1, o1);
    apply(REACHABLE_SATUR(true,1), I, R2, o2);
    apply(REACHABLE_TRAD_NOFS(true), I, R2, o2t);
    ostream_output out(std::cout);
    double c1, c2, c2t;
    apply(CARDINALITY, o1, c1); apply(CARDINALITY, o2, c2); apply(CARDINALITY, o2t, c2t);
    printf("card o1 %g o2 %g o2t %g  equal=%d\n", c1, c2, c2t, (int)(o2==o2t));
    return (o2==o2t) ? 0 : 1;
}
