// triage (candidate D25): sub-agent C20b's demonstration program with the two initial sets it had to drop because the UNMODIFIED library fails them:
// a fully-reduced set forest and an initial set that leaves a middle variable free (x3 any).
//
// Demo for property C20: saturation over a partitioned relation
// (pregen_relation, by events or by levels, any splitting option)
// must return exactly the states reachable under the union of the events,
// for EVERY initial set.
//
// Oracle 1: explicit breadth-first closure over the 3*2*3*3 = 54 states.
// Oracle 2: REACHABLE_TRAD_NOFS on the union of the events.
//
// Exit 0 iff every configuration agrees with both oracles.
//

#include "/repo/src/meddly.h"

#include <cstdio>
#include <cstdlib>
#include <vector>
#include <set>
#include <queue>

using namespace MEDDLY;

static const int NV = 4;
//                         -  x1 x2 x3 x4
static const int SIZES[NV+1] = { 0, 3, 3, 2, 3 };

// One constraint of an event: variable, required value, next value
struct upd { int var, from, to; };
typedef std::vector<upd> event;

// A state is an array indexed 1..NV
struct state {
    int x[NV+1];
    bool operator<(const state &o) const {
        for (int i=NV; i; --i) if (x[i] != o.x[i]) return x[i] < o.x[i];
        return false;
    }
};

static std::vector<event> the_events()
{
    std::vector<event> E;
    // top variable x4 changes, together with the bottom variable
    E.push_back( event{ {4,0,1}, {1,0,1} } );
    E.push_back( event{ {4,1,2}, {2,0,2} } );
    // top is x3
    E.push_back( event{ {3,0,1}, {1,1,2} } );
    // top is x2
    E.push_back( event{ {2,2,1}, {1,2,0} } );
    // top variable x4 is only a guard (unchanged)
    E.push_back( event{ {4,2,2}, {3,1,0}, {2,1,0} } );
    // self loop
    E.push_back( event{ {2,0,0}, {1,1,1} } );
    // overlapping support with the first one
    E.push_back( event{ {4,2,0}, {1,0,2} } );
    // purely local
    E.push_back( event{ {1,2,1} } );
    return E;
}

// ---------------------------------------------------------------
// explicit oracle
// ---------------------------------------------------------------
static bool fire(const event &e, const state &s, state &t)
{
    t = s;
    for (const upd &u : e) {
        if (s.x[u.var] != u.from) return false;
        t.x[u.var] = u.to;
    }
    return true;
}

static std::set<state> closure(const std::vector<event> &E,
        const std::set<state> &init)
{
    std::set<state> seen(init);
    std::queue<state> todo;
    for (const state &s : init) todo.push(s);
    while (!todo.empty()) {
        state s = todo.front(); todo.pop();
        for (const event &e : E) {
            state t;
            if (!fire(e, s, t)) continue;
            if (seen.insert(t).second) todo.push(t);
        }
    }
    return seen;
}

// all states matching a pattern (-1 = any value)
static std::set<state> expand(const int pat[NV+1])
{
    std::set<state> S;
    state s;
    s.x[0] = 0;
    for (int a=0; a<SIZES[1]; a++)
    for (int b=0; b<SIZES[2]; b++)
    for (int c=0; c<SIZES[3]; c++)
    for (int d=0; d<SIZES[4]; d++) {
        s.x[1]=a; s.x[2]=b; s.x[3]=c; s.x[4]=d;
        bool ok = true;
        for (int i=1; i<=NV; i++) if (pat[i]>=0 && pat[i]!=s.x[i]) ok=false;
        if (ok) S.insert(s);
    }
    return S;
}

// ---------------------------------------------------------------
// symbolic side
// ---------------------------------------------------------------
static void build_event(forest* mxd, const event &e, dd_edge &out)
{
    minterm m(mxd);
    m.setAllVars(DONT_CARE, DONT_CHANGE);
    for (const upd &u : e) m.setVars(u.var, u.from, u.to);
    m.setValue(rangeval(true));
    out.attach(mxd);
    m.buildFunction(rangeval(false), out);
}

static void build_pattern(forest* mdd, const int pat[NV+1], dd_edge &out)
{
    minterm m(mdd);
    for (int i=1; i<=NV; i++) m.setVar(i, pat[i]<0 ? DONT_CARE : pat[i]);
    m.setValue(rangeval(true));
    out.attach(mdd);
    m.buildFunction(rangeval(false), out);
}

static int compare(const char* what, forest* mdd, const dd_edge &got,
        const std::set<state> &want)
{
    int missing = 0, extra = 0;
    minterm m(mdd);
    state s;
    s.x[0] = 0;
    for (int a=0; a<SIZES[1]; a++)
    for (int b=0; b<SIZES[2]; b++)
    for (int c=0; c<SIZES[3]; c++)
    for (int d=0; d<SIZES[4]; d++) {
        s.x[1]=a; s.x[2]=b; s.x[3]=c; s.x[4]=d;
        for (int i=1; i<=NV; i++) m.setVar(i, s.x[i]);
        bool in;
        got.evaluate(m, in);
        bool should = want.count(s) > 0;
        if (in && !should) ++extra;
        if (!in && should) {
            if (!missing) {
                printf("      e.g. missing state (x4,x3,x2,x1) = (%d,%d,%d,%d)\n",
                    s.x[4], s.x[3], s.x[2], s.x[1]);
            }
            ++missing;
        }
    }
    if (missing || extra) {
        printf("    MISMATCH %s: %d reachable states missing, %d extra "
               "(expected %d states)\n", what, missing, extra,
               int(want.size()));
        return 1;
    }
    return 0;
}

static const char* split_name(int s)
{
    switch (s) {
        case -1:    return "by events";
        case pregen_relation::None:             return "by levels, None";
        case pregen_relation::SplitOnly:        return "by levels, SplitOnly";
        case pregen_relation::SplitSubtract:    return "by levels, SplitSubtract";
        case pregen_relation::SplitSubtractAll: return "by levels, SplitSubtractAll";
        case pregen_relation::MonolithicSplit:  return "by levels, MonolithicSplit";
    }
    return "?";
}

int main()
{
    int failures = 0;
    int checks = 0;

    MEDDLY::initialize();
    domain* D = domain::createBottomUp(SIZES+1, NV);

    const std::vector<event> E = the_events();

    // initial sets as patterns, -1 means "any value"
    //                               -  x1 x2 x3 x4
    static const int INITS[][NV+1] = {
        { 0,  0, 0,-1, 0 },     // a middle variable free
        { 0,  0, 0,-1,-1 },     // top and a middle variable free
    };
    const int NINITS = sizeof(INITS) / sizeof(INITS[0]);

    for (int fully = 1; fully >= 0; --fully) {
        policies pmdd(SET), pmxd(RELATION);
        if (fully) pmdd.setFullyReduced(); else pmdd.setQuasiReduced();

        forest* mdd = forest::create(D, SET, range_type::BOOLEAN,
                edge_labeling::MULTI_TERMINAL, pmdd);
        forest* mxd = forest::create(D, RELATION, range_type::BOOLEAN,
                edge_labeling::MULTI_TERMINAL, pmxd);

        printf("set forest: %s reduced\n", fully ? "fully" : "quasi");

        // Events and their union
        std::vector<dd_edge> ev(E.size());
        dd_edge nsf(mxd);
        for (unsigned i=0; i<E.size(); i++) {
            build_event(mxd, E[i], ev[i]);
            apply(UNION, nsf, ev[i], nsf);
        }

        for (int split = -1; split <= int(pregen_relation::MonolithicSplit);
                ++split)
        {
            pregen_relation* rel;
            if (split < 0) {
                rel = new pregen_relation(mxd, unsigned(E.size()));
            } else {
                rel = new pregen_relation(mxd);
            }
            for (unsigned i=0; i<E.size(); i++) rel->addToRelation(ev[i]);
            if (split < 0) {
                rel->finalize();
            } else {
                rel->finalize(pregen_relation::splittingOption(split));
            }

            saturation_operation* sat = SATURATION_FORWARD(mdd, rel, mdd);
            binary_operation* trad =
                build(REACHABLE_TRAD_NOFS(true), mdd, mxd, mdd);

            printf("  relation %s\n", split_name(split));

            for (int n=0; n<NINITS; n++) {
                dd_edge init(mdd), reach(mdd), reach_trad(mdd);
                build_pattern(mdd, INITS[n], init);

                sat->compute(init, reach);
                trad->compute(init, nsf, reach_trad);

                std::set<state> want = closure(E, expand(INITS[n]));

                char what[64];
                snprintf(what, 64, "init #%d (saturation vs explicit)", n);
                int f = compare(what, mdd, reach, want);
                snprintf(what, 64, "init #%d (traditional vs explicit)", n);
                f += compare(what, mdd, reach_trad, want);
                if (reach != reach_trad) {
                    printf("    MISMATCH init #%d: saturation edge differs "
                           "from REACHABLE_TRAD_NOFS edge\n", n);
                    ++f;
                }
                ++checks;
                if (f) ++failures;
            }
        }
    }

    printf("%d of %d checks failed\n", failures, checks);
    MEDDLY::cleanup();
    return failures ? 1 : 0;
}
