#include "/repo/src/meddly.h"
#include <iostream>
using namespace MEDDLY;
int main(int argc, char** argv) {
    MEDDLY::initialize();
    int sizes[3] = {2,3,2};
    domain* dom = domain::createBottomUp(sizes, 3);
    forest* f1 = forest::create(dom, SET, range_type::BOOLEAN, edge_labeling::MULTI_TERMINAL);
    forest* f2 = forest::create(dom, SET, range_type::BOOLEAN, edge_labeling::MULTI_TERMINAL);
    forest* fi = forest::create(dom, SET, range_type::INTEGER, edge_labeling::MULTI_TERMINAL);
    int which = argc>1 ? atoi(argv[1]) : 0;
    try {
        if (which==0) { dd_edge v(fi); fi->createEdgeForVar(0, false, v); std::cout << "var0 ok node " << v.getNode() << "\n"; }
        if (which==1) {
            dd_edge a(f1), b(f1), c(f2);
            f1->createEdgeForVar(1, false, a); f1->createEdgeForVar(2, false, b);
            binary_operation* op = build(UNION, f1, f1, f1);
            op->compute(a, b, c);
            std::cout << "direct compute with foreign result edge: no error; c.node=" << c.getNode() << " c.forest=" << c.getForest()->FID() << " f2 nodes=" << f2->getCurrentNumNodes() << "\n";
        }
        if (which==2) {
            dd_edge a(f2), b(f1), c(f1);
            f2->createEdgeForVar(1, false, a); f1->createEdgeForVar(2, false, b);
            binary_operation* op = build(UNION, f1, f1, f1);
            op->compute(a, b, c);
            std::cout << "direct compute with foreign operand: no error; c.node=" << c.getNode() << "\n";
        }
        if (which==3) { dd_edge v(fi); fi->createEdgeForVar(4, false, v); std::cout << "var4 ok\n"; }
        if (which==4) { dd_edge v(fi); fi->createConstant(rangeval(1L<<40), v); std::cout << "big const ok node " << v.getNode() << "\n"; }
        if (which==5) { dd_edge v(f1); f1->createConstant(rangeval(5L), v); std::cout << "int const in bool forest ok node " << v.getNode() << "\n"; }
    } catch (MEDDLY::error e) {
        std::cout << "error " << e.getName() << std::endl;
    }
    MEDDLY::cleanup();
    return 0;
}
