#include "/repo/src/meddly.h"
#include <iostream>
using namespace MEDDLY;
int main(int argc, char** argv) {
    MEDDLY::initialize();
    int sizes[3] = {2,3,2};
    domain* dom = domain::createBottomUp(sizes, 3);
    forest* mdd = forest::create(dom, SET, range_type::BOOLEAN, edge_labeling::MULTI_TERMINAL);
    dd_edge a(mdd), b(mdd);
    mdd->createConstant(true, a); mdd->createConstant(false, b);
    forest::destroy(mdd);
    int which = argc>1 ? atoi(argv[1]) : 0;
    try {
        if (which==0) { dd_edge c = a + b; std::cout << "a+b ok\n"; }
        if (which==1) { a += b; std::cout << "a+=b ok\n"; }
        if (which==2) { dd_edge c = !a; std::cout << "!a ok\n"; }
    } catch (MEDDLY::error e) { std::cout << "error " << e.getName() << std::endl; }
    MEDDLY::cleanup();
    return 0;
}
